"""C18 - batt_life() steps the battery with the solved current, phase by phase (DESIGN.md section 4, C18).
Ordering and provenance inside the depletion loop; a minority of the statement."""
import ast
from ..core import AnalysisError
from ..guards import Ctx, And, Not, atoms_of, ev, literals, show_f
from ..terms import RF, lift
from ..summ import Summarizer, State, Sym, ListV, vkey, show_value, to_num, fr
from .. import sysrules
from ..sysrules import SysHooks, is_name

EXPLANATION = (
    "The body of the depletion loop is summarised into its paths (events in program order) and every path must: (R1) write "
    "the battery's vo and rs from the state the iteration started with (voltage, impedance) before the solver is called, "
    "call the solver exactly once with the phase phase_list[phidx] of the entry index, and call the deplete callback "
    "exactly once; (R2) hand the callback the duration phases[phase_list[phidx]] of that same index (or 3.6*cap0/I without "
    "phases, cap0 the probed capacity) and the current I[index of the battery] of this iteration's solution, and advance "
    "phidx by one modulo the number of phases exactly once, after those uses; (R3) append to the log exactly under the loop "
    "condition evaluated on the new state, with time t[-1] + duration, the log starting with t = 0 and the probed state; "
    "(R4) a target that is not a Source raises ValueError before anything is written, and the helpers that resolve the name do not resolve the empty string (the registry's 'no rail' value) to a component. Not decided: the values of the "
    "currents (C01/C03 - the solver's iteration count is not checked here), that time is strictly increasing (needs "
    "duration > 0), termination.")


class BattHooks(SysHooks):
    def call(self, sm, node, fname, args, kwargs, st):
        if fname in ("int", "float") and len(args) == 1:
            return Sym(("call", fname, (vkey(args[0]),)))
        return super().call(sm, node, fname, args, kwargs, st)


def run(model, rep, tier):
    rep.explanation = EXPLANATION
    rep.attempt(rules, model, rep)
    from .. import editrules
    rep.attempt(lambda: editrules.name_resolution_rule(model, rep, sysrules.roles(model), "R4"))


def rules(model, rep):
    r = sysrules.roles(model)
    rel = model.rel("system")
    fn = model.own_method("System", "batt_life")
    if fn is None:
        raise AnalysisError("System.batt_life not found")
    from ..core import inline_nested_defs
    fn = inline_nested_defs(fn)
    loop = sysrules.find_loop(fn, lambda l: isinstance(l, ast.While), "depletion loop")
    where = "%s:%d" % (rel, loop.lineno)
    construct = "system.System.batt_life"
    hooks = BattHooks(model, r)
    sm = Summarizer(hooks, Ctx())
    a = fn.args
    args = {x.arg: Sym(("name", x.arg)) for x in a.posonlyargs + a.args + a.kwonlyargs}
    pre = sysrules.pre_env(sm, fn, loop, args)
    env0 = dict(pre.env)
    # names of the roles
    def find_assign(pred):
        for s in ast.walk(fn):
            if isinstance(s, ast.Assign) and pred(s):
                return s
        return None
    probe = find_assign(lambda s: isinstance(s.value, ast.Call) and is_name(s.value.func, "pfunc") and isinstance(s.targets[0], ast.Name))
    if probe is None:
        raise AnalysisError("batt_life: probe call not found")
    BST = probe.targets[0].id
    pidx_a = find_assign(lambda s: isinstance(s.value, ast.Call) and ast.unparse(s.value.func) == "self._get_index" and isinstance(s.targets[0], ast.Name))
    if pidx_a is None or ast.unparse(pidx_a.value.args[0]) != "battery":
        raise AnalysisError("batt_life: battery index not resolved from the battery argument")
    PIDX = pidx_a.targets[0].id
    # roles by structure, never by spelling: the phase list / index are what the solver call in the loop subscripts,
    # the log lists are what feeds the result columns
    scall = [c for c in ast.walk(loop) if isinstance(c, ast.Call) and ast.unparse(c.func) == "self.%s" % r["SOLVER"]]
    if not scall:
        raise AnalysisError("batt_life: the depletion loop does not call the solver")
    pharg = None
    for k in scall[0].keywords:
        if k.arg == "phase":
            pharg = k.value
    if pharg is None and len(scall[0].args) >= 5:
        pharg = scall[0].args[4]
    if isinstance(pharg, ast.Name):
        # a local alias of the list element:  ph = phase_list[phidx]
        defs = [x.value for x in ast.walk(fn) if isinstance(x, ast.Assign) and len(x.targets) == 1 and is_name(x.targets[0], pharg.id)]
        if len(defs) == 1 and isinstance(defs[0], ast.Subscript) and isinstance(defs[0].value, ast.Name):
            pharg = defs[0]
    if pharg is not None and not (isinstance(pharg, ast.Subscript) and isinstance(pharg.value, ast.Name)) and not (isinstance(pharg, ast.Constant)):
        raise AnalysisError("batt_life: the phase handed to the solver (%s) is not an element of the phase list selected by an index: phase cycling not readable" % ast.unparse(pharg)[:50])
    if not (isinstance(pharg, ast.Subscript) and isinstance(pharg.value, ast.Name)):
        PLN, IXN = "phase_list", "phidx"
        for x in ast.walk(fn):
            if isinstance(x, ast.Assign) and isinstance(x.targets[0], ast.Name) and ast.unparse(x.value).replace('"', "'") == "['']":
                PLN = x.targets[0].id
    else:
        PLN = pharg.value.id
        ix = [n.id for n in ast.walk(pharg.slice) if isinstance(n, ast.Name)]
        IXN = ix[0] if ix else "phidx"
    hdr0 = {}
    for x in ast.walk(fn):
        if isinstance(x, ast.Assign) and isinstance(x.targets[0], ast.Subscript) and isinstance(x.targets[0].slice, ast.Constant) and isinstance(x.value, ast.Name) \
                and isinstance(x.targets[0].value, ast.Name):
            hdr0[x.targets[0].slice.value] = x.value.id
    # the same as one dict literal: res = {"Time (s)": t, ...}
    for x in ast.walk(fn):
        if isinstance(x, ast.Dict) and x.keys and all(isinstance(k, ast.Constant) and isinstance(k.value, str) for k in x.keys) and all(isinstance(v, ast.Name) for v in x.values):
            if {"Time (s)", "Capacity (Ah)"} <= {k.value for k in x.keys}:
                for k, v in zip(x.keys, x.values):
                    hdr0.setdefault(k.value, v.id)
    need_h = ["Time (s)", "Capacity (Ah)", "Voltage (V)", "Resistance (Ohm)"]
    if any(h not in hdr0 for h in need_h):
        raise AnalysisError("batt_life: result columns %s not found" % [h for h in need_h if h not in hdr0])
    TN, CAPN, VOLTN, RSN = (hdr0[h] for h in need_h)
    if not all(isinstance(env0.get(x), ListV) for x in (TN, CAPN, VOLTN, RSN)):
        raise AnalysisError("batt_life: the four log lists are not plain lists initialised before the loop: log not readable")
    # the loop condition on a symbolic state
    entry = dict(env0)
    entry[BST] = Sym(("name", "STATE"))
    for nm in list(entry):
        pass
    # loop-carried scalars keep a symbolic entry value
    carried = {n.id for x in ast.walk(loop) for n in ast.walk(x) if isinstance(n, ast.Name) and isinstance(n.ctx, ast.Store)}
    # containers mutated in the loop (x[k] = .., x.append(..)) are loop-carried state as well
    for x in ast.walk(loop):
        if isinstance(x, ast.Subscript) and isinstance(x.ctx, (ast.Store, ast.Del)) and isinstance(x.value, ast.Name):
            carried.add(x.value.id)
        if isinstance(x, ast.Call) and isinstance(x.func, ast.Attribute) and x.func.attr in sysrules.MUTATORS and isinstance(x.func.value, ast.Name) \
                and x.func.value.id in env0 and x.func.value.id != "pbar":
            carried.add(x.func.value.id)
    for nm in carried:
        if nm != BST:
            entry[nm] = Sym(("entry", nm))
    cond_entry = sm.cond(loop.test, State(entry))
    leaves = sm.summarize_block(loop.body, entry)
    # ---- R4 before the loop
    ok = True
    pre_stmts = []
    for s in ast.walk(fn):
        pass
    first_write = min([x.lineno for x in ast.walk(fn) if isinstance(x, ast.Assign) and any(isinstance(t, ast.Subscript) and "._params" in ast.unparse(t) for t in x.targets)] or [10 ** 9])
    chk = [x for x in ast.walk(fn) if isinstance(x, ast.If) and "isinstance" in ast.unparse(x.test) and "Source" in ast.unparse(x.test) and any(isinstance(b, ast.Raise) for b in x.body)]
    good = bool(chk) and chk[0].lineno < first_write and ast.unparse(chk[0].test).replace(" ", "") == "notisinstance(self._g[%s],Source)" % PIDX \
        and any(isinstance(b, ast.Raise) and "ValueError" in ast.unparse(b) for b in chk[0].body) and chk[0].lineno < probe.lineno
    known = [x for x in ast.walk(fn) if isinstance(x, ast.Expr) and isinstance(x.value, ast.Call) and ast.unparse(x.value.func) in ("self._chk_parent", "self._chk_comp")
             and x.value.args and ast.unparse(x.value.args[0]) == "battery" and x.lineno < pidx_a.lineno]
    if not known:
        ok = False
        rep.violation("R4", construct, "%s:%d" % (rel, fn.lineno), "an unknown battery name is not rejected with ValueError before its index is used", "unknown battery")
    if not good:
        ok = False
        rep.violation("R4", construct, "%s:%d" % (rel, fn.lineno), "a battery that is not a Source is not rejected with ValueError before the probe call and the first write", "source check")
    rep.instance("R4", construct + " rejects non-Source targets first", "%s:%d" % (rel, fn.lineno), ok)
    # ---- per path
    S = Sym(("name", "STATE"))

    def st(i):
        return Sym(("sub", S, lift(i)))
    PHL = entry.get(PLN)
    ok1 = ok2 = ok3 = True
    npaths = 0
    for lf in leaves:
        if lf.kind == "raise":
            continue
        npaths += 1
        evs = lf.events
        solver = [(i, e) for i, e in enumerate(evs) if e[0] == "call" and e[1] == "self.%s" % r["SOLVER"]]
        dep = [(i, e) for i, e in enumerate(evs) if e[0] == "call" and e[1] == "dfunc"]
        writes = [(i, e) for i, e in enumerate(evs) if e[0] == "store" and e[1][0] == "sub" and "._params" in show_value(e[1][1])]
        if lf.kind in ("continue", "break") or len(solver) != 1 or len(dep) != 1:
            ok1 = False
            rep.violation("R1", construct, where, "a path through the depletion loop body calls the solver %d time(s) and the deplete callback %d time(s)%s: every step must solve the present state once and deplete once" % (
                len(solver), len(dep), " and leaves the body early" if lf.kind in ("continue", "break") else ""), "calls per step %d/%d %s" % (len(solver), len(dep), lf.kind))
            continue
        si, se = solver[0]
        di, de = dep[0]
        wmap = {e[1][2]: (i, e[2]) for i, e in writes}
        for key, idx in (("vo", 1), ("rs", 2)):
            w = wmap.get(key)
            if w is None or w[0] > si or vkey(w[1]) != vkey(st(idx)):
                ok1 = False
                rep.violation("R1", construct, where, "the battery's %s is %s before the solver call, expected state[%d] of the step's starting state" % (
                    key, "not written" if w is None or w[0] > si else "set to " + show_value(w[1]), idx), "write %s" % key)
            else:
                tgt = [e for i, e in writes if e[1][2] == key][0][1][1]
                if "self._g[%s]" % PIDX not in show_value(tgt).replace("entry(", "").replace(")", "") and show_value(env0.get(PIDX)) not in show_value(tgt):
                    ok1 = False
                    rep.violation("R1", construct, where, "%s is written on %s, not on the battery" % (key, show_value(tgt)), "write target " + key)
        # solver phase
        kw = dict(se[3])
        ph = kw.get("phase")
        if ph is None and len(se[2]) >= 5:
            ph = se[2][4]
        PHX = Sym(("entry", IXN)) if IXN in carried else entry.get(IXN)
        want_ph = Sym(("sub", vkey(PHL), vkey(PHX)))
        if ph is None or vkey(ph) != vkey(want_ph):
            ok2 = False
            rep.violation("R2", construct, where, "the solver is called for phase %s, expected phase_list[phidx] of the step's entry index" % (show_value(ph) if ph is not None else "(default)"), "solver phase " + (show_value(ph) if ph is not None else "default"))
        # deplete arguments
        sol = Sym(("call", "self.%s" % r["SOLVER"], tuple(se[2]) + tuple(se[3])))
        cur = Sym(("sub", Sym(("sub", sol, lift(1))), env0.get(PIDX)))
        dt, dc = de[2][0], de[2][1]
        if vkey(dc) != vkey(cur):
            ok2 = False
            rep.violation("R2", construct, where, "the callback receives the current %s, expected the battery's input current of this step's solution" % show_value(dc), "deplete current " + show_value(dc))
        lits = {}
        for g in lf.guards:
            literals(g, True, lits)
        nophase = None
        for k, v in lits.items():
            if k[0] in ("EQ",) and vkey(PHL) in k[1:]:
                nophase = v
        phases = Sym(("sub", Sym(("attr", Sym(("attr", Sym(("name", "self")), "_g")), "attrs")), "phases"))
        if nophase is None:
            raise AnalysisError("batt_life: the step duration does not branch on 'no phases'")
        if nophase:
            capv = entry.get(CAPN)
            cap0 = capv.items[0] if isinstance(capv, ListV) and capv.items else Sym(("sub", vkey(capv), lift(0)))
            want_dt = to_num(cap0) / to_num(cur) * lift(3.6)
            good = False
            try:
                good = to_num(dt) == want_dt
            except Exception:
                good = False
            # cap[0] is the probed capacity (the log-initialisation rule decides that), so the probe's own first element is the same value
            probe0 = Sym(("sub", Sym(("call", "pfunc", ())), lift(0)))
            if not good:
                try:
                    good = to_num(dt) == to_num(probe0) / to_num(cur) * lift(3.6)
                except Exception:
                    good = False
        else:
            want_dt = Sym(("sub", vkey(phases), vkey(want_ph)))
            good = vkey(dt) == vkey(want_dt)
        if not good:
            ok2 = False
            rep.violation("R2", construct, where, "the step duration is %s, expected %s" % (show_value(dt), show_value(want_dt)), "duration %s" % ("nophase" if nophase else "phase"))
        # phidx advance: once, after the uses
        newph = lf.env.get(IXN)
        try:
            wantph = RF.atom(("F", "Mod", (to_num(PHX) + 1, RF.atom(("nn", Sym(("len", vkey(PHL))))))))
            good = isinstance(newph, RF) and newph == wantph
        except Exception:
            good = False
        if not good:
            ok2 = False
            rep.violation("R2", construct, where, "after the step phidx is %s, expected (phidx + 1) %% len(phase_list)" % show_value(newph), "phidx advance " + show_value(newph))
        # ---- R3 log
        newstate = lf.env.get(BST)
        dres = Sym(("call", "dfunc", (vkey(dt), vkey(dc))))
        if vkey(newstate) != vkey(dres):
            ok3 = False
            rep.violation("R3", construct, where, "the state carried to the next step is %s, not the callback's result" % show_value(newstate), "carried state")
        e2 = dict(entry)
        e2[BST] = dres
        cond_new = sm.cond(loop.test, State(e2))
        logged = {}
        for nm, var in (("t", TN), ("cap", CAPN), ("volt", VOLTN), ("rs", RSN)):
            logged[nm] = lf.env.get(var)
        appended = isinstance(logged["t"], Sym) and logged["t"].key[0] == "concat" or (isinstance(logged["t"], ListV) and isinstance(entry.get(TN), ListV) and len(logged["t"].items) > len(entry[TN].items))
        from ..editrules import implies
        holds = True if implies(lf.guards, cond_new)[0] else (False if implies(lf.guards, Not(cond_new))[0] else None)
        if holds is None:
            ok3 = False
            rep.violation("R3", construct, where, "the log append is not decided by the loop condition on the new state (%s)" % show_f(cond_new), "log guard")
        elif bool(appended) != holds:
            ok3 = False
            rep.violation("R3", construct, where, "the new state is %s although the loop condition on it is %s" % ("logged" if appended else "not logged", holds), "log guard mismatch %s/%s" % (appended, holds))
        elif appended:
            def last(v):
                if isinstance(v, Sym) and v.key[0] == "concat":
                    return v.key[2].items[-1], v.key[1]
                return v.items[-1], None
            tv, tprev = last(logged["t"])
            prevt = entry.get(TN)
            want_t = to_num(Sym(("sub", vkey(prevt), lift(-1)))) + to_num(dt)
            try:
                good = to_num(tv) == want_t
            except Exception:
                good = False
            if not good:
                ok3 = False
                rep.violation("R3", construct, where, "the logged time is %s, expected t[-1] + duration" % show_value(tv), "log time")
            for nm, idx in (("cap", 0), ("volt", 1), ("rs", 2)):
                vv, _ = last(logged[nm])
                if vkey(vv) != vkey(Sym(("sub", dres, lift(idx)))):
                    ok3 = False
                    rep.violation("R3", construct, where, "the logged %s is %s, expected element %d of the new state" % (nm, show_value(vv), idx), "log " + nm)
    if npaths == 0:
        raise AnalysisError("batt_life: no path through the loop body")
    rep.instance("R1", construct + " writes state, then solves once, then depletes once", where, ok1, "%d paths" % npaths)
    rep.instance("R2", construct + " phase, duration, current, index advance", where, ok2, "%d paths" % npaths)
    rep.instance("R3", construct + " log append under the loop condition on the new state", where, ok3, "%d paths" % npaths)
    # log starts with the probe state
    ok = True
    pv = Sym(("call", "pfunc", ()))
    init = {"t": ListV([lift(0)]), "cap": ListV([Sym(("sub", pv, lift(0)))]), "volt": ListV([Sym(("sub", pv, lift(1)))]), "rs": ListV([Sym(("sub", pv, lift(2)))])}
    if not all(isinstance(env0.get(x), ListV) for x in (TN, CAPN, VOLTN, RSN)):
        raise AnalysisError("batt_life: the four log lists are not plain lists initialised before the loop: log not readable")
    for nm, want in init.items():
        got = env0.get({"t": TN, "cap": CAPN, "volt": VOLTN, "rs": RSN}[nm])
        if not (isinstance(got, ListV) and vkey(tuple(got.items)) == vkey(tuple(want.items))):
            ok = False
            rep.violation("R3", construct, "%s:%d" % (rel, fn.lineno), "the log list '%s' starts as %s, expected %s (t=0 and the probed state)" % (nm, show_value(got), show_value(want)), "log init " + nm)
    # result columns
    hdr = {}
    for x in ast.walk(fn):
        if isinstance(x, ast.Assign) and isinstance(x.targets[0], ast.Subscript) and is_name(x.targets[0].value, "res") and isinstance(x.targets[0].slice, ast.Constant) and isinstance(x.value, ast.Name):
            hdr[x.targets[0].slice.value] = x.value.id
    wanth = {"Time (s)": TN, "Capacity (Ah)": CAPN, "Voltage (V)": VOLTN, "Resistance (Ohm)": RSN}
    if len(set(wanth.values())) != 4:
        ok = False
        rep.violation("R3", construct, "%s:%d" % (rel, fn.lineno), "result columns are fed by %s" % hdr, "result columns")
    # nothing strips or edits the log after the loop
    after = [s for s in ast.walk(fn) if isinstance(s, ast.Assign) and s.lineno > loop.end_lineno and any(is_name(t, nm) or (isinstance(t, ast.Tuple) and any(is_name(e, nm) for e in t.elts)) for t in s.targets for nm in wanth.values())]
    if after:
        ok = False
        rep.violation("R3", construct, "%s:%d" % (rel, after[0].lineno), "the log is rewritten after the loop (%s)" % ast.unparse(after[0])[:80], "log rewritten after loop")
    rep.instance("R3", construct + " log starts with the probe state and is returned unchanged", "%s:%d" % (rel, fn.lineno), ok)
    rep.sample({"loop_condition": show_f(cond_entry), "paths": npaths})
