"""C17 - analyses are read-only; batt_life restores the battery even on failure (DESIGN.md section 4, C17)."""
import ast
from ..core import AnalysisError, KINDS
from .. import sysrules
from ..sysrules import is_name, registry_of, MUTATORS

EXPLANATION = (
    "(R1) effect purity: the transitive write set of every analysis (solve, rail_rep, params, limits, phases, tree, save, "
    "plot_interp, batt_life and the diagram functions) on the System object is limited to the relationship / phase-lookup "
    "caches that every analysis rebuilds (and, for batt_life, the battery's vo/rs covered by R2); no law method, report "
    "helper or diagram function stores into, or calls a mutating method on, one of its arguments, an alias of one "
    "(definite alias: an unbroken chain of plain assignments, or an element taken out of one by subscript / .get() and bound "
    "only there) or a module-level mutable constant, except through a fresh "
    "copy (copy.deepcopy / a literal built in the caller); (R2) every parameter write inside batt_life is matched by a store "
    "of the value saved before the loop to the same location inside a `finally` clause that encloses all the writes, so "
    "the restore runs on normal return and on any exception, BaseException included. Not decided: global state of "
    "matplotlib / tqdm; writes reaching a shared constant only through a container slot.")

ANALYSES = ["solve", "rail_rep", "params", "limits", "phases", "tree", "save", "plot_interp", "batt_life", "get_sys_phases", "_pars_and_limits"]
CACHE_OK = {"_parents", "_childs", "_topo_nodes", "_phase_lkup", "attrs[hidx]"}
MODULE_MUTABLES = {"components": ["LIMITS_DEFAULT", "STATE_DEFAULT", "STATE_OFF"], "diagram": ["_DEF_GRAPH_CONF", "_DEF_CLUSTER_CONF", "_DEF_NODE_CONF", "_DEF_EDGE_CONF", "_DEF_CONF", "_DEF_GRADIENT"],
                   "system": ["LIMITS_DEFAULT", "STATE_DEFAULT"]}
FRESH_CALLS = {"copy.deepcopy", "deepcopy", "dict", "list", "copy.copy", "dict.fromkeys"}


def run(model, rep, tier):
    rep.explanation = EXPLANATION
    A = rep.attempt
    A(r1_object_state, model, rep)
    A(r1_arg_mutation, model, rep)
    A(r2_restore, model, rep)


def r1_object_state(model, rep):
    rel = model.rel("system")
    n = 0
    for name in ANALYSES:
        fn = model.own_method("System", name)
        if fn is None:
            raise AnalysisError("System.%s not found" % name)
        methods = {name} | sysrules.closure_from(model, [fn])
        bad = []
        for m in sorted(methods):
            f = model.own_method("System", m)
            u, c, mu, rd = sysrules.method_state_effects(f)
            for d in (u, c, mu):
                for k, line in d.items():
                    if k not in CACHE_OK:
                        bad.append((m, k, line))
            for x in ast.walk(f):
                if isinstance(x, ast.Call) and isinstance(x.func, ast.Attribute) and x.func.attr in ("add_node", "add_child", "add_edge", "remove_node", "remove_edge") \
                        and ast.unparse(x.func.value) == "self._g":
                    bad.append((m, "graph." + x.func.attr, x.lineno))
                # node payload / parameter writes: self._g[i] = ..., self._g[i]._params[k] = ...
                if isinstance(x, (ast.Assign, ast.AugAssign)):
                    for t in (x.targets if isinstance(x, ast.Assign) else [x.target]):
                        tt = ast.unparse(t)
                        if isinstance(t, ast.Subscript) and (tt.startswith("self._g[") and (ast.unparse(t.value) == "self._g" or "._params" in tt or "._limits" in tt)):
                            if name == "batt_life" and m == "batt_life" and "._params[" in tt:
                                continue      # covered by R2
                            bad.append((m, "node " + tt, x.lineno))
        ok = not bad
        for m, k, line in bad:
            rep.violation("R1", "system.System.%s" % m, "%s:%d" % (rel, line), "analysis %s() modifies the system: %s is written in %s" % (name, k, m), "analysis %s writes %s in %s" % (name, k, m))
        rep.instance("R1", "system.System.%s writes only rebuilt caches" % name, "%s:%d" % (rel, fn.lineno), ok, "%d reachable methods" % len(methods))
        n += 1
    rep.floor("R1", n, 11)


def definite_aliases(fn, roots):
    """names linked to a root name by an unbroken chain of plain assignments (x = root, y = x)"""
    al = {r: r for r in roots}
    changed = True
    while changed:
        changed = False
        for x in ast.walk(fn):
            if isinstance(x, ast.Assign) and len(x.targets) == 1 and isinstance(x.targets[0], ast.Name) and isinstance(x.value, ast.Name) \
                    and x.value.id in al and x.targets[0].id not in al:
                # the target must not also be assigned from something else
                others = [y for y in ast.walk(fn) if isinstance(y, ast.Assign) and any(is_name(t, x.targets[0].id) for t in y.targets) and y is not x]
                if not others:
                    al[x.targets[0].id] = al[x.value.id]
                    changed = True
    return al


def base_name(node):
    while isinstance(node, (ast.Subscript, ast.Attribute)):
        node = node.value
    return node.id if isinstance(node, ast.Name) else None


def arg_mutations(fn, mod, model):
    """(line, description) of stores / mutating calls through a parameter, an alias of one, or a module-level mutable"""
    params = {a.arg for a in fn.args.posonlyargs + fn.args.args + fn.args.kwonlyargs} - {"self", "cls"}
    consts = set(MODULE_MUTABLES.get(mod, []))
    roots = definite_aliases(fn, params | consts)
    # an element taken out of a root (x = root[k], x = root.get(k, d)) is the caller's object too, when x is bound only there
    changed = True
    while changed:
        changed = False
        for x in ast.walk(fn):
            if not (isinstance(x, ast.Assign) and len(x.targets) == 1 and isinstance(x.targets[0], ast.Name) and x.targets[0].id not in roots):
                continue
            v = x.value
            src = None
            if isinstance(v, ast.Subscript) and not isinstance(v.slice, ast.Slice):
                src = v.value
            elif isinstance(v, ast.Call) and isinstance(v.func, ast.Attribute) and v.func.attr in ("get", "setdefault") and v.args:
                src = v.func.value
            b = base_name(src) if src is not None else None
            if b is None or b not in roots or b in ("self", "cls"):
                continue
            tname = x.targets[0].id
            binds = [y for y in ast.walk(fn) if (isinstance(y, (ast.Assign, ast.AugAssign, ast.AnnAssign, ast.For, ast.comprehension, ast.NamedExpr, ast.withitem)) and y is not x
                     and any(isinstance(z, ast.Name) and z.id == tname and isinstance(z.ctx, ast.Store) for t in
                             (y.targets if isinstance(y, ast.Assign) else [getattr(y, "target", None) or getattr(y, "optional_vars", None)]) if t is not None for z in ast.walk(t)))]
            if binds:
                continue
            roots[tname] = roots[b]
            changed = True
    # shallow copies ({**a}, dict(a), a.copy(), copy.copy(a), list(a), a[:]) are fresh one level deep only: what they
    # contain is still the original's; an element taken out of one is an alias of the original's element
    shallow = {}

    def shallow_sources(v):
        src = []
        if isinstance(v, ast.Dict):
            src = [val for k, val in zip(v.keys, v.values) if k is None]
        elif isinstance(v, ast.Call) and ast.unparse(v.func) in ("dict", "list", "copy.copy", "copy") and len(v.args) == 1:
            src = [v.args[0]]
        elif isinstance(v, ast.Call) and isinstance(v.func, ast.Attribute) and v.func.attr == "copy" and not v.args:
            src = [v.func.value]
        elif isinstance(v, ast.Subscript) and isinstance(v.slice, ast.Slice) and v.slice.lower is None and v.slice.upper is None:
            src = [v.value]
        elif isinstance(v, ast.BinOp) and isinstance(v.op, ast.BitOr):
            src = [v.left, v.right]
        return [base_name(s) for s in src if base_name(s) in roots]
    for x in ast.walk(fn):
        if isinstance(x, ast.Assign) and len(x.targets) == 1 and isinstance(x.targets[0], ast.Name):
            ss = shallow_sources(x.value)
            if ss:
                shallow[x.targets[0].id] = roots[ss[0]]
    for _ in range(3):
        for x in ast.walk(fn):
            if isinstance(x, ast.Assign) and len(x.targets) == 1 and isinstance(x.targets[0], ast.Name) and isinstance(x.value, ast.Subscript):
                b = base_name(x.value)
                if b in shallow and x.targets[0].id not in roots:
                    roots[x.targets[0].id] = shallow[b]
    out = []
    for x in ast.walk(fn):
        tg = x.targets if isinstance(x, (ast.Assign, ast.Delete)) else ([x.target] if isinstance(x, ast.AugAssign) else [])
        for t in tg:
            for tt in (t.elts if isinstance(t, (ast.Tuple, ast.List)) else [t]):
                depth, cur = 0, tt
                while isinstance(cur, (ast.Subscript, ast.Attribute)):
                    depth += 1
                    cur = cur.value
                if isinstance(cur, ast.Name) and cur.id in shallow and depth >= 2:
                    out.append((x.lineno, "%s (through the shallow copy '%s')" % (ast.unparse(tt), cur.id), shallow[cur.id]))
        if isinstance(x, ast.Call) and isinstance(x.func, ast.Attribute) and x.func.attr in MUTATORS:
            depth, cur = 0, x.func.value
            while isinstance(cur, (ast.Subscript, ast.Attribute)):
                depth += 1
                cur = cur.value
            if isinstance(cur, ast.Name) and cur.id in shallow and depth >= 1:
                out.append((x.lineno, "%s.%s() (through the shallow copy '%s')" % (ast.unparse(x.func.value), x.func.attr, cur.id), shallow[cur.id]))
    for x in ast.walk(fn):
        tgts = []
        if isinstance(x, ast.Assign):
            tgts = x.targets
        elif isinstance(x, ast.AugAssign):
            tgts = [x.target]
        elif isinstance(x, ast.Delete):
            tgts = x.targets
        for t in tgts:
            for tt in (t.elts if isinstance(t, (ast.Tuple, ast.List)) else [t]):
                if isinstance(tt, (ast.Subscript, ast.Attribute)):
                    b = base_name(tt)
                    if b in roots and not (b == "self"):
                        out.append((x.lineno, "%s (through '%s')" % (ast.unparse(tt), b), roots[b]))
        if isinstance(x, ast.Call) and isinstance(x.func, ast.Attribute) and x.func.attr in MUTATORS:
            b = base_name(x.func.value)
            if b in roots:
                out.append((x.lineno, "%s.%s() (through '%s')" % (ast.unparse(x.func.value), x.func.attr, b), roots[b]))
    return out, params, consts


def fresh_at_all_call_sites(model, fname, pname_index, owner_methods):
    """is the argument at this position a fresh object (dict/list literal, constructor call, deepcopy) at every call site?"""
    sites = 0
    for mod, qn, fn in model.all_functions():
        for c in ast.walk(fn):
            if isinstance(c, ast.Call) and ((isinstance(c.func, ast.Attribute) and c.func.attr == fname) or (isinstance(c.func, ast.Name) and c.func.id == fname)):
                sites += 1
                if pname_index >= len(c.args):
                    return False
                a = c.args[pname_index]
                if isinstance(a, (ast.Dict, ast.List, ast.DictComp, ast.ListComp)):
                    continue        # a display or a comprehension builds a new container every time it is evaluated
                if isinstance(a, ast.Call) and ast.unparse(a.func) in FRESH_CALLS:
                    continue
                if isinstance(a, ast.Name):
                    # a local assigned only from literals / fresh calls in the caller
                    asg = [y for y in ast.walk(fn) if isinstance(y, ast.Assign) and any(is_name(t, a.id) for t in y.targets)]
                    if asg and all(isinstance(y.value, (ast.Dict, ast.List, ast.DictComp, ast.ListComp)) or (isinstance(y.value, ast.Call) and ast.unparse(y.value.func) in FRESH_CALLS) for y in asg):
                        continue
                return False
    return sites > 0


def r1_arg_mutation(model, rep):
    n = 0
    todo = []
    for mod, qn, fn in model.all_functions():
        short = qn.split(".")[-1]
        if mod == "components":
            if short in ("__init__", "from_file") or qn.startswith("_ComponentMeta"):
                continue
        elif mod == "system":
            if not (qn.startswith("System.") and (short in ANALYSES or short.startswith("_"))):
                continue
            if short in ("__init__",):
                continue
        elif mod == "diagram":
            pass
        else:
            continue
        todo.append((mod, qn, fn))
    for mod, qn, fn in todo:
        muts, params, consts = arg_mutations(fn, mod, model)
        ok = True
        for line, desc, root in muts:
            # a helper that fills a dict handed in by its caller is fine when every caller hands in a fresh one
            if root in params:
                plist = [a.arg for a in fn.args.posonlyargs + fn.args.args]
                idx = plist.index(root) - (1 if plist and plist[0] in ("self", "cls") else 0) if root in plist else None
                if idx is not None and fresh_at_all_call_sites(model, fn.name, idx, None):
                    continue
            ok = False
            rep.violation("R1", "%s.%s" % (mod, qn), "%s:%d" % (model.rel(mod), line),
                          "stores into %s: the caller's object%s is changed by an analysis" % (desc, " / a shared module constant" if root in consts else ""), "arg mutation %s" % desc)
        rep.instance("R1", "%s.%s does not modify its arguments or shared constants" % (mod, qn), "%s:%d" % (model.rel(mod), fn.lineno), ok)
        n += 1
    rep.floor("R1-args", n, 100)
    # diagram: the configuration is only ever used through a deep copy
    d = model.func("diagram", "_diag")
    src = ast.unparse(d)
    ok = True
    for x in ast.walk(d):
        if isinstance(x, ast.Assign) and isinstance(x.value, ast.Name) and x.value.id == "config" and isinstance(x.targets[0], ast.Name):
            # harmless while the alias is only read (handed to copy.deepcopy); a store through it reaches the caller's dict
            al = x.targets[0].id
            if any(isinstance(y, (ast.Assign, ast.AugAssign)) and any(isinstance(t, ast.Subscript) and base_name(t) == al for t in (y.targets if isinstance(y, ast.Assign) else [y.target])) for y in ast.walk(d)) \
                    or any(isinstance(c, ast.Call) and not ast.unparse(c.func).endswith("deepcopy") and any(isinstance(a, ast.Name) and a.id == al for a in c.args) for c in ast.walk(d)):
                ok = False
        if isinstance(x, ast.Assign) and isinstance(x.targets[0], ast.Name) and isinstance(x.value, ast.Subscript):
            # conf = attrs["default"] without deepcopy, followed by stores into conf
            tname = x.targets[0].id
            b = base_name(x.value)
            stores = [y for y in ast.walk(d) if isinstance(y, ast.Assign) and any(isinstance(t, ast.Subscript) and is_name(t.value, tname) for t in y.targets)]
            if stores and b is not None:
                ok = False
                rep.violation("R1", "diagram._diag", "%s:%d" % (model.rel("diagram"), x.lineno), "'%s' aliases %s and is then written to: defaults / the caller's configuration leak from one node or cluster to the next" % (tname, ast.unparse(x.value)), "alias of config written: " + tname)
    if not ok and not any(f.key.startswith("alias of config") for f in rep.findings):
        rep.violation("R1", "diagram._diag", "%s:%d" % (model.rel("diagram"), d.lineno), "the caller's configuration is used without a deep copy", "config not copied")
    rep.instance("R1", "diagram._diag works on deep copies of the configuration", "%s:%d" % (model.rel("diagram"), d.lineno), ok)


def r2_restore(model, rep):
    rel = model.rel("system")
    fn = model.norm_method("System", "batt_life")
    if fn is None:
        raise AnalysisError("System.batt_life not found")
    where = "%s:%d" % (rel, fn.lineno)
    writes = []
    for x in ast.walk(fn):
        if isinstance(x, ast.Assign):
            for t in x.targets:
                if isinstance(t, ast.Subscript) and "._params" in ast.unparse(t) and ast.unparse(t).startswith("self._g["):
                    writes.append((ast.unparse(t), x))
    if not writes:
        raise AnalysisError("batt_life writes no source parameter (anchor vanished)")
    tries = [t for t in ast.walk(fn) if isinstance(t, ast.Try) and t.finalbody]
    ok = True
    locs = sorted({w[0] for w in writes})
    for loc in locs:
        ws = [x for l, x in writes if l == loc]
        # the saved original: a name assigned from this location before any write
        saved = [a.targets[0].id for a in ast.walk(fn) if isinstance(a, ast.Assign) and isinstance(a.targets[0], ast.Name) and ast.unparse(a.value) == loc
                 and a.lineno < min(w.lineno for w in ws)]
        restoring = None
        for t in tries:
            fin = [a for s in t.finalbody for a in ast.walk(s) if isinstance(a, ast.Assign) and ast.unparse(a.targets[0]) == loc and isinstance(a.value, ast.Name) and a.value.id in saved]
            if fin:
                restoring = (t, fin[0])
        if restoring is None:
            # a restore written as a loop over saved items (params[par] = val) cannot be matched to a location here
            loopish = [a for t in tries for s in t.finalbody for a in ast.walk(s) if isinstance(a, ast.Assign) and isinstance(a.targets[0], ast.Subscript)
                       and "._params[" in ast.unparse(a.targets[0]) and not isinstance(a.targets[0].slice, ast.Constant)]
            if loopish:
                raise AnalysisError("batt_life: the finally clause restores parameters through a computed key (%s): not readable" % ast.unparse(loopish[0])[:60])
            # a `with` block whose context manager is not one of the known ones (progress bar, file) may be what restores the battery on exit
            # (an ExitStack callback, a guard object): what it does on exit is not read here
            others = sorted({ast.unparse(it.context_expr.func if isinstance(it.context_expr, ast.Call) else it.context_expr) for w in ast.walk(fn) if isinstance(w, ast.With)
                             for it in w.items} - {"tqdm", "open", "tqdm.tqdm"})
            if others:
                raise AnalysisError("batt_life: no `finally` restores %s, but the loop runs inside `with %s`: whether that context manager restores the battery is not readable" % (loc, others[0][:50]))
            ok = False
            rep.violation("R2", "system.System.batt_life", where, "%s is overwritten during the depletion loop but is not restored from its saved original in a `finally` clause: an exception in a callback or the solver leaves the battery modified" % loc, "no finally restore of " + loc)
            continue
        t, fin = restoring
        inside = set(id(y) for s in t.body for y in ast.walk(s))
        # a write inside a nested function happens where that function is called
        for nf in [x for x in ast.walk(fn) if isinstance(x, ast.FunctionDef) and x is not fn]:
            calls = [c for c in ast.walk(fn) if isinstance(c, ast.Call) and isinstance(c.func, ast.Name) and c.func.id == nf.name]
            if calls and all(id(c) in inside for c in calls):
                inside |= set(id(y) for y in ast.walk(nf))
        for w in ws:
            if w is fin:
                continue
            in_final = any(w is y for s in t.finalbody for y in ast.walk(s))
            if not in_final and id(w) not in inside:
                ok = False
                rep.violation("R2", "system.System.batt_life", "%s:%d" % (rel, w.lineno), "a write of %s lies outside the try block whose finally restores it" % loc, "write outside try " + loc)
        # nothing after the saved read may raise before the try (callbacks are called inside? the probe call precedes all writes)
    rep.instance("R2", "system.System.batt_life restores %s in finally" % ", ".join(locs), where, ok, "%d writes" % len(writes))
