"""C15 - a rejected edit leaves the system untouched (DESIGN.md section 4, C15)."""
from .. import sysrules, editrules

EXPLANATION = (
    "(R1) for the six edit / configuration methods (add_source, add_comp, change_comp, del_comp, set_sys_phases, "
    "set_comp_phases), on every path of the method's summary (helpers inlined, loops as one symbolic iteration, effects and "
    "branch decisions in program order): no path that ends in `raise` contains a graph / registry / parameter modification, "
    "and no registry entry is deleted after a modification unless the path itself establishes that the key is present "
    "(a dominating membership test on the name registries - which share their key set, C16-R1 - an earlier store, or a key "
    "read from a live graph node); warnings.warn counts as a raise (it is one under `-W error`) and must precede the first "
    "modification; (R2) the "
    "validation and query helpers the checks rely on are effect-free. Not decided: exceptions thrown by rustworkx for "
    "reasons the repository's own checks do not cover; subscript *loads* with an absent key.")


def run(model, rep, tier):
    rep.explanation = EXPLANATION
    r = sysrules.roles(model)
    A = rep.attempt
    A(editrules.c15_effect_order, model, rep, r)
    A(editrules.c15_checks_pure, model, rep)
