"""C07 - subsystem, total, average and energy rows are exact aggregates (DESIGN.md section 4, C07)."""
import ast
from ..core import AnalysisError
from ..aggr import Reader, show
from ..summ import Sym, ListV, vkey, show_value, Summarizer, State, fr
from ..guards import Ctx, literals
from ..terms import RF, lift
from .. import sysrules

EXPLANATION = (
    "(R1) attribution is a function of the tree: no scalar reaches the row loop of solve() through its back edge "
    "(reaching definitions; only append-only result lists are carried), the Domain of a row is _find_domain applied to "
    "the domain recorded for the row's own first parent, and _find_domain is 'source -> itself, mux -> root of the first "
    "input with voltage, otherwise the inherited domain'; (R2) the subsystem rows are the pandas records Iout/Power = the "
    "source row of that domain, Loss = sum over rows of that domain, Efficiency = EFF(Power, Power-Loss), Vin = the "
    "source's own Vin; (R3) the total row sums Power and Loss over the subsystem rows; (R4) 24 h energy is 24*P without "
    "phases and 24*P*t_phase/sum(t) with phases (term identity, the sum loop read as a reduction idiom), the average row "
    "is sum(x_i*t_i)/sum(t_i) of the per-phase totals for Power, Loss and Efficiency and its energy is 24*avgPower, hence "
    "the per-phase energies add up to the energy of the average. Not decided: row order; that pandas evaluates the "
    "selections as modelled (trusted contract).")

SRC = ("SRC",)


def run(model, rep, tier):
    from ..aggr import Reader as _R
    _R.MODEL = model
    rep.explanation = EXPLANATION
    r = sysrules.roles(model)
    an = sysrules.solve_anchors(model, r)
    A = rep.attempt
    A(r1, model, rep, r, an)
    A(sysrules.find_domain_rule, model, rep, r, "R1")
    A(sysrules.object_state_rule, model, rep, r, "R1")
    A(r2_r3_cache, model, rep, r, an)
    A(summary_rows, model, rep, r, an)
    A(r4, model, rep, r, an)


# ------------------------------------------------------------------------------------------------ R1
def r1(model, rep, r, an):
    rel = model.rel("system")
    row = an["row"]
    where = "%s:%d" % (rel, row.lineno)
    sysrules.iteration_state_rule(model, rep, "R1", "system.System.solve", where, row, "row loop", parent_attr=r["PARENTS"])
    sysrules.iteration_state_rule(model, rep, "R1", "system.System.solve", "%s:%d" % (rel, an["phase_loop"].lineno), an["phase_loop"], "phase loop")
    # Domain channel wiring
    an2, leaves, sl = sysrules.row_summary(model, r)
    pre_env = sysrules.row_pre_env(model, r)
    dom_var = an["chan"].get("Domain")
    if dom_var is None:
        raise AnalysisError("solve has no Domain column")
    ok = True
    dommap = None
    P = Sym(("sub", Sym(("attr", Sym(("name", "self")), r["PARENTS"])), Sym(("name", "n"))))
    nleaf = 0
    for lf in leaves:
        if lf.kind == "raise":
            continue
        nleaf += 1
        v = lf.env.get(dom_var)
        if not isinstance(v, ListV) or len(v.items) != 1:
            raise AnalysisError("Domain column does not receive one value per row")
        dv = v.items[0]
        if not (isinstance(dv, Sym) and dv.key[0] == "call" and dv.key[1] == "self._find_domain" and len(dv.key[2]) == 3):
            raise AnalysisError("Domain is not computed by _find_domain(n, inherited, v): %s" % show_value(dv))
        a_n, a_dom, a_v = dv.key[2]
        if a_n != Sym(("name", "n")) or a_v != Sym(("name", "v")):
            ok = False
            rep.violation("R1", "system.System.solve", where, "_find_domain is called for node %s with voltages %s" % (show_value(a_n), show_value(a_v)), "find_domain operands")
        # the map that records each row's domain: a per-node dict that holds n -> this row's domain after the body
        from ..summ import DictV
        maps = [(name, val) for name, val in lf.env.items() if isinstance(val, DictV) and val.get(Sym(("name", "n"))) == dv]
        stores = [e for e in lf.events if e[0] == "store" and e[1][0] == "sub" and e[1][2] == Sym(("name", "n")) and e[2] == dv]
        if maps:
            dommap = pre_env.get(maps[0][0])
        elif stores:
            dommap = stores[0][1][1]
        else:
            ok = False
            rep.violation("R1", "system.System.solve", where, "the domain of a row is not recorded per node, so children cannot inherit it from their own parent", "domain not recorded")
            continue
        lits = {}
        for g in lf.guards:
            literals(g, True, lits)
        root = None
        for k, val in lits.items():
            if k[0] == "ZP" and any(a == ("fr", P) for a in k[1].atoms()):
                root = val
        if root is None:
            raise AnalysisError("row path does not decide root / non-root")
        if not root:
            want = Sym(("sub", dommap, Sym(("sub", P, lift(0)))))
            if a_dom != want:
                ok = False
                rep.violation("R1", "system.System.solve", where, "a non-root row inherits the domain %s, expected the domain recorded for its own first parent %s" % (show_value(a_dom), show_value(want)), "inherited domain " + show_value(a_dom))
    rep.instance("R1", "system.System.solve Domain = _find_domain(n, domain of own parent, v)", where, ok, "%d row paths" % nleaf)
    # sources[domain] = Vin on source rows (feeds the subsystem row's Vin)
    vin_var = an["chan"]["Vin (V)"]
    ok = True
    seen = 0
    for lf in leaves:
        if lf.kind == "raise":
            continue
        lits = {}
        for g in lf.guards:
            literals(g, True, lits)
        is_src = None
        for k, val in lits.items():
            if k[0] == "EQ" and "SOURCE" in k[1:]:
                is_src = val
        dv = lf.env[dom_var].items[0]
        vin = lf.env[vin_var].items[0]
        st = [e for e in lf.events if e[0] == "store" and e[1][0] == "sub" and e[1][2] == dv and e[2] == vin]
        from ..summ import DictV
        st += [name for name, val in lf.env.items() if isinstance(val, DictV) and val.get(vkey(dv)) == vin]
        if is_src:
            seen += 1
            if not st:
                ok = False
                rep.violation("R2", "system.System.solve", where, "the source's voltage is not recorded under its own domain for the subsystem row", "source voltage record")
    if seen == 0:
        raise AnalysisError("no source row path found")
    rep.instance("R2", "system.System.solve records source Vin per domain", where, ok)


# ------------------------------------------------------------------------------------------------ R2/R3
def src_loop(loop):
    """the loop over the recorded sources in its spellings -> (name of the dict, {local name: descriptor})
       for d in range(len(S)) [list(S.keys())[d] is read by special_factory]  |  for k in S / S.keys()  |  for k, v in S.items()"""
    it = loop.iter
    # list(S) / list(S.keys()) / tuple(..) / sorted is NOT the same order: only order-keeping copies of the key view are the key view
    while isinstance(it, ast.Call) and isinstance(it.func, ast.Name) and it.func.id in ("list", "tuple") and len(it.args) == 1 and not it.keywords:
        it = it.args[0]
    if isinstance(it, ast.Call) and ast.unparse(it.func) == "range" and len(it.args) == 1 and isinstance(it.args[0], ast.Call) and ast.unparse(it.args[0].func) == "len" \
            and isinstance(it.args[0].args[0], ast.Name):
        return it.args[0].args[0].id, {}
    if isinstance(it, ast.Name) and isinstance(loop.target, ast.Name):
        return it.id, {loop.target.id: SRC}
    if isinstance(it, ast.Call) and isinstance(it.func, ast.Attribute) and isinstance(it.func.value, ast.Name) and not it.args:
        S = it.func.value.id
        if it.func.attr == "keys" and isinstance(loop.target, ast.Name):
            return S, {loop.target.id: SRC}
        if it.func.attr == "items" and isinstance(loop.target, ast.Tuple) and len(loop.target.elts) == 2 and all(isinstance(e, ast.Name) for e in loop.target.elts):
            return S, {loop.target.elts[0].id: SRC, loop.target.elts[1].id: ("sub", ("name", S), SRC)}
    return None


def src_binder(loop, rd):
    r = src_loop(loop)
    return r[1] if r and r[1] else None


def special_factory(srcdict):
    def special(n, rd):
        # list(sources.keys())[d] / list(sources)[d]
        if isinstance(n, ast.Subscript) and isinstance(n.value, ast.Call) and isinstance(n.value.func, ast.Name) and n.value.func.id == "list" and len(n.value.args) == 1:
            a = n.value.args[0]
            if (isinstance(a, ast.Name) and a.id == srcdict) or (isinstance(a, ast.Call) and isinstance(a.func, ast.Attribute) and a.func.attr == "keys"
                                                                and isinstance(a.func.value, ast.Name) and a.func.value.id == srcdict):
                if isinstance(n.slice, ast.Name) and rd.env.get(n.slice.id, ("",))[0] == "loopvar":
                    return SRC
        # df.index[-1]
        if isinstance(n, ast.Subscript) and isinstance(n.value, ast.Attribute) and n.value.attr == "index" and isinstance(n.value.value, ast.Name) \
                and n.value.value.id == rd.frame:
            from ..idioms import const_int
            if const_int(n.slice) == -1:
                return ("ROW", "last")
        # df[df.Component == "Subsystem {}".format(src)].index[0]
        if isinstance(n, ast.Subscript) and isinstance(n.value, ast.Attribute) and n.value.attr == "index" and isinstance(n.value.value, ast.Subscript):
            from ..idioms import const_int, parse_pred
            inner = n.value.value
            if const_int(n.slice) == 0 and isinstance(inner.value, ast.Name) and inner.value.id == rd.frame:
                pr = parse_pred(inner.slice, rd.frame, rd.res)
                if pr is not None:
                    return ("ROW",) + tuple(sorted(pr, key=repr))
        return None
    return special


def sel(col, red, *conds):
    return ("sel", tuple(sorted(conds)), col, red)


def r2_r3(model, rep, r, an):
    rel = model.rel("system")
    ploop = an["phase_loop"]
    body = ploop.body
    idx = [i for i, s in enumerate(body) if isinstance(s, ast.Assign) and isinstance(s.value, ast.Call) and ast.unparse(s.value.func) == "pd.DataFrame"]
    if len(idx) != 1:
        raise AnalysisError("solve: DataFrame construction not found in the phase loop")
    frame = body[idx[0]].targets[0].id
    tail = body[idx[0] + 1:]
    loops = [s for s in tail if isinstance(s, ast.For)]
    if len(loops) != 1:
        raise AnalysisError("solve: expected one subsystem update loop after the table is built")
    sl_ = src_loop(loops[0])
    if sl_ is None:
        raise AnalysisError("solve: subsystem loop does not range over the sources")
    srcdict = sl_[0]
    ph = ploop.target.id
    rd = Reader(frame, special=special_factory(srcdict))
    rd.binder = src_binder
    rd.run(tail)
    PH = ("name", ph)
    subrow = ("ROW", ("Component", "==", ("fmt", "Subsystem {}", SRC)))
    dS = ("Domain", "==", SRC)
    tS = ("Type", "==", ("const", "SOURCE"))
    pw_s = sel("Power (W)", "first", dS, tS)
    ls_s = sel("Loss (W)", "sum", dS)
    want_sub = {
        "Iout (A)": sel("Iout (A)", "first", dS, tS),
        "Power (W)": pw_s,
        "Loss (W)": ls_s,
        "Efficiency (%)": ("eff", pw_s, ("Sub", pw_s, ls_s)),
        "24h energy (Wh)": ("energy", PH, pw_s),
    }
    e0 = ("const", "")
    pw_t = sel("Power (W)", "sum", ("Domain", "==", e0), ("Power (W)", "!=", e0))
    ls_t = sel("Loss (W)", "sum", ("Domain", "==", e0), ("Loss (W)", "!=", e0))
    want_tot = {
        "Power (W)": pw_t,
        "Loss (W)": ls_t,
        "Efficiency (%)": ("eff", pw_t, ("Sub", pw_t, ls_t)),
        "24h energy (Wh)": ("energy", PH, pw_t),
    }
    got_sub, got_tot = {}, {}
    for conds, row, col, val, line in rd.updates:
        if row == subrow:
            got_sub[col] = (val, line, conds)
        elif row == ("ROW", "last"):
            got_tot.setdefault(col, (val, line, conds))
        elif row[0] == "ROW":
            rep.violation("R2", "system.System.solve", "%s:%d" % (rel, line), "an aggregate is written to the row selected by %s" % show(row), "unexpected row " + show(row))
    for label, want, got, rule in (("Subsystem", want_sub, got_sub, "R2"), ("System total", want_tot, got_tot, "R3")):
        for col, w in want.items():
            where = "%s:%d" % (rel, got[col][1] if col in got else ploop.lineno)
            ok = col in got and got[col][0] == w
            if col not in got:
                rep.violation(rule, "system.System.solve", where, "%s row: column '%s' is never filled in" % (label, col), "%s %s missing" % (label, col))
            elif not ok:
                rep.violation(rule, "system.System.solve", where, "%s row: '%s' is %s, expected %s" % (label, col, show(got[col][0]), show(w)), "%s %s = %s" % (label, col, show(got[col][0])))
            rep.instance(rule, "system.System.solve %s row: %s" % (label, col), where, ok)
    # the subsystem rows are filled before the total sums over them
    first_tot = min([l for _, row, _, _, l in rd.updates if row == ("ROW", "last")] or [0])
    last_sub = max([l for _, row, _, _, l in rd.updates if row == subrow] or [0])
    ok = last_sub < first_tot
    if not ok:
        rep.violation("R3", "system.System.solve", "%s:%d" % (rel, first_tot), "the total is computed before the subsystem rows it sums over are filled in", "total before subsystems")
    rep.instance("R3", "system.System.solve total computed after subsystem rows", "%s:%d" % (rel, first_tot), ok)
    # per-phase records for the average
    want_app = {"Power": pw_t, "Loss": ls_t, "Efficiency": ("eff", pw_t, ("Sub", pw_t, ls_t)),
                "time": ("sub", ("sub", ("attr", ("attr", ("name", "self"), "_g"), "attrs"), ("const", "phases")), PH)}
    rep.extra["per_phase_appends"] = {k: [show(x[1]) for x in v] for k, v in rd.appends.items()}
    return rd, want_app


# ------------------------------------------------------------------------------------------------ R4
class SumLoopHooks(sysrules.SysHooks):
    """reads  acc = 0; for k in D(.keys()): acc += D[k]  as the reduction SUM(D)"""

    def loop(self, sm, node, st):
        # for k, x in D.items(): acc += x
        if isinstance(node, ast.For) and isinstance(node.target, ast.Tuple) and len(node.target.elts) == 2 and len(node.body) == 1 \
                and isinstance(node.body[0], ast.AugAssign) and isinstance(node.body[0].op, ast.Add) and isinstance(node.body[0].target, ast.Name) \
                and isinstance(node.iter, ast.Call) and isinstance(node.iter.func, ast.Attribute) and node.iter.func.attr == "items" and not node.iter.args \
                and isinstance(node.target.elts[1], ast.Name) and isinstance(node.body[0].value, ast.Name) and node.body[0].value.id == node.target.elts[1].id:
            d = sm.expr(node.iter.func.value, st)
            from ..summ import to_num
            acc = node.body[0].target.id
            st.env[acc] = to_num(st.env[acc]) + RF.atom(("nn", Sym(("SUM", vkey(d)))))
            return [(st, None)]
        if isinstance(node, ast.For) and isinstance(node.target, ast.Name) and len(node.body) == 1 and isinstance(node.body[0], ast.AugAssign) \
                and isinstance(node.body[0].op, ast.Add) and isinstance(node.body[0].target, ast.Name):
            acc = node.body[0].target.id
            it = node.iter
            if isinstance(it, ast.Call) and isinstance(it.func, ast.Attribute) and it.func.attr == "keys" and not it.args:
                it = it.func.value
            val = node.body[0].value
            # for x in D.values(): acc += x
            if isinstance(it, ast.Call) and isinstance(it.func, ast.Attribute) and it.func.attr == "values" and not it.args \
                    and isinstance(val, ast.Name) and val.id == node.target.id:
                d = sm.expr(it.func.value, st)
                from ..summ import to_num
                st.env[acc] = to_num(st.env[acc]) + RF.atom(("nn", Sym(("SUM", vkey(d)))))
                return [(st, None)]
            # D[k]
            if isinstance(val, ast.Subscript) and vkey(sm.expr(val.value, st)) == vkey(sm.expr(it, st)) and isinstance(val.slice, ast.Name) and val.slice.id == node.target.id:
                d = sm.expr(it, st)
                from ..summ import to_num
                st.env[acc] = to_num(st.env[acc]) + RF.atom(("nn", Sym(("SUM", vkey(d)))))
                return [(st, None)]
        return None


def r4(model, rep, r, an):
    rel = model.rel("system")
    fn = model.own_method("System", "_calc_energy")
    if fn is None:
        raise AnalysisError("System._calc_energy not found")
    where = "%s:%d" % (rel, fn.lineno)
    sm = Summarizer(SumLoopHooks(model, r), Ctx())
    params = [a.arg for a in fn.args.args][1:]
    P = fr("P")
    leaves = sm.summarize(fn, {"self": Sym(("name", "self")), params[0]: Sym(("name", "phase")), params[1]: P})
    phases = Sym(("sub", Sym(("attr", Sym(("attr", Sym(("name", "self")), "_g")), "attrs")), "phases"))
    T = RF.atom(("nn", Sym(("SUM", vkey(phases)))))
    t = RF.atom(("fr", Sym(("sub", vkey(phases), Sym(("name", "phase"))))))
    ok = True
    seen = set()
    for lf in leaves:
        lits = {}
        for g in lf.guards:
            literals(g, True, lits)
        nophase = None
        for k, v in lits.items():
            if k[0] == "EQ" and "" in k[1:]:
                nophase = v
        if nophase is None or lf.kind != "return":
            raise AnalysisError("_calc_energy does not branch on phase == ''")
        seen.add(nophase)
        want = 24 * P if nophase else 24 * P * t / T
        if not (isinstance(lf.value, RF) and lf.value == want):
            ok = False
            rep.violation("R4", "system.System._calc_energy", where, "24 h energy %s is %s, expected %s" % ("without phases" if nophase else "of a phase", show_value(lf.value), show_value(want)), "energy %s" % nophase)
    if seen != {True, False}:
        raise AnalysisError("_calc_energy paths incomplete")
    rep.instance("R4", "system.System._calc_energy", where, ok)
    # average row
    sfn = an["fn"]
    ploop = an["phase_loop"]
    after = sfn.body[sfn.body.index(ploop) + 1:]
    rd0, want_app = r2_r3_cache(model, rep, r, an)
    rd = Reader("dff")
    rd.run(after)
    accs = {}
    for name, lst in rd0.appends.items():
        if len(lst) == 1:
            accs[name] = lst[0][1]
    by_role = {}
    for role, w in want_app.items():
        hits = [n for n, d in accs.items() if d == w]
        if len(hits) != 1:
            rep.violation("R4", "system.System.solve", "%s:%d" % (rel, ploop.lineno), "no per-phase record of the total %s (expected one list collecting %s)" % (role, show(w)), "per-phase record " + role)
            rep.instance("R4", "system.System.solve per-phase record of " + role, "%s:%d" % (rel, ploop.lineno), False)
            return
        by_role[role] = hits[0]
        rep.instance("R4", "system.System.solve per-phase record of " + role, "%s:%d" % (rel, ploop.lineno), True)
    tm = ("name", by_role["time"])

    def wavg(x):
        return ("Div", ("SUM", ("MUL",) + tuple(sorted([("name", x), tm], key=repr))), ("SUM", tm))
    vals = idxs = None
    for name, d in rd.env.items():
        if isinstance(d, tuple) and d[:1] == ("list",) and ("const", "System average") in d:
            vals = name
        if isinstance(d, tuple) and d[:1] == ("list",) and ("const", "Component") in d:
            idxs = name
    if vals is None or idxs is None:
        raise AnalysisError("average row: value / header lists not found")
    pairs = dict(zip([x[1] for x in rd.env[idxs][1:]], rd.env[vals][1:]))
    va, ia = rd.appends.get(vals, []), rd.appends.get(idxs, [])
    for (c1, v, _), (c2, h, _) in zip(va, ia):
        if h[0] == "const":
            pairs[h[1]] = v
    want = {"Component": ("const", "System average"), "Power (W)": wavg(by_role["Power"]), "Loss (W)": wavg(by_role["Loss"]),
            "Efficiency (%)": wavg(by_role["Efficiency"]), "24h energy (Wh)": ("energy", ("const", ""), wavg(by_role["Power"]))}
    icur = [n for n, d in accs.items() if isinstance(d, tuple) and d[:1] == ("sel",) and d[2] == "Iout (A)" and d[3] == "first"]
    if "Iout (A)" in pairs:
        if len(icur) == 1:
            want["Iout (A)"] = wavg(icur[0])
        else:
            rep.violation("R4", "system.System.solve", "%s:%d" % (rel, ploop.lineno), "the averaged Iout has no per-phase record of the source's output current", "per-phase record Iout")
    for col, w in want.items():
        ok = pairs.get(col) == w
        if not ok:
            rep.violation("R4", "system.System.solve", "%s:%d" % (rel, after[0].lineno if after else ploop.lineno),
                          "System average: '%s' is %s, expected %s" % (col, show(pairs.get(col)) if col in pairs else "missing", show(w)), "average %s = %s" % (col, show(pairs.get(col)) if col in pairs else "missing"))
        rep.instance("R4", "system.System.solve average row: %s" % col, "%s:%d" % (rel, ploop.lineno), ok)
    rep.sample({"average_row": {k: show(v) for k, v in pairs.items() if isinstance(k, str)}})
    rep.notes.append("derived, not separately checked: sum over phases of 24*P_i*t_i/T equals 24*(sum P_i t_i / T), the energy of the average row (linear identity in P_i, t_i)")


def r2_r3_cache(model, rep, r, an):
    # r2_r3 is run once per report; its reader is reused by r4
    if "_c07_r23" not in rep.__dict__:
        rep.__dict__["_c07_r23"] = r2_r3(model, rep, r, an)
    return rep.__dict__["_c07_r23"]


def summary_rows(model, rep, r, an):
    """the Subsystem and total rows are laid out so that the roll-ups can find them: one append per result column in each of
    the three row-producing blocks, Component = 'Subsystem <source>' / 'System total', Domain = '', Vin = the source's recorded
    voltage; and they are only dropped for a single-source system"""
    rel = model.rel("system")
    ploop = an["phase_loop"]
    chans = sorted(set(an["chan"].values()))
    body = ploop.body
    ri = body.index(an["row"]) if an["row"] in body else None
    di = [i for i, s_ in enumerate(body) if isinstance(s_, ast.Assign) and isinstance(s_.value, ast.Call) and ast.unparse(s_.value.func) == "pd.DataFrame"]
    if ri is None or len(di) != 1:
        raise AnalysisError("solve: row loop / table construction are not top-level statements of the phase loop")
    between = body[ri + 1:di[0]]
    subloop = [s_ for s_ in between if isinstance(s_, ast.For)]
    if len(subloop) != 1 or src_loop(subloop[0]) is None:
        raise AnalysisError("solve: subsystem summary loop not found")
    sl = subloop[0]
    rd = Reader("df", special=special_factory(src_loop(sl)[0]))
    rd.binder = src_binder
    rd.env_loop(sl)
    rd.run(sl.body)
    tot = Reader("df")
    tot_stmts = []
    for s_ in between[between.index(sl) + 1:]:
        if isinstance(s_, ast.Assign):
            break        # the table dict starts here
        tot_stmts.append(s_)
    tot.run(tot_stmts)
    ok = True
    if not any(rd.appends.get(ch) for ch in chans):
        raise AnalysisError("solve: the Subsystem rows are not produced by per-row appends to the column lists: layout not readable")
    for label, reader, want in (("Subsystem", rd, {"Component": ("fmt", "Subsystem {}", SRC), "Domain": ("const", ""), "Vin (V)": None}),
                                ("System total", tot, {"Component": ("const", "System total"), "Domain": ("const", "")})):
        for ch in chans:
            aps = reader.appends.get(ch, [])
            base = [a for a in aps if not [c for c in a[0] if c[0] in ("if", "ifnot")]]
            cond = [a for a in aps if [c for c in a[0] if c[0] in ("if", "ifnot")]]
            n_eff = len(base) + (1 if cond else 0)
            # a column that is only put into the table under a switch gets its cells under the same switch, in every block
            sw = {an.get("chan_cond", {}).get(h) for h, v in an["chan"].items() if v == ch}
            if not base and len(cond) == 1 and len(sw) == 1 and None not in sw and cond[0][0] == (("if", next(iter(sw))),):
                continue
            if n_eff != 1 or (cond and len(cond) != 2):
                ok = False
                rep.violation("R2", "system.System.solve", "%s:%d" % (rel, sl.lineno if label == "Subsystem" else between[-1].lineno),
                              "the %s row block appends %d value(s) to the column list '%s' (expected exactly one per row): the columns of the table no longer line up" % (label, len(aps), ch), "%s block: %s x%d" % (label, ch, len(aps)))
        for hdr, w in want.items():
            var = an["chan"].get(hdr)
            aps = reader.appends.get(var, [])
            if not aps:
                continue
            got = aps[0][1]
            if hdr == "Vin (V)":
                good = got[0] == "sub" and got[2] == SRC
            else:
                good = got == w
            if not good:
                ok = False
                rep.violation("R2", "system.System.solve", "%s:%d" % (rel, aps[0][2]), "the %s row gets %s = %s" % (label, hdr, show(got)), "%s row %s = %s" % (label, hdr, show(got)))
    rep.instance("R2", "system.System.solve layout of the Subsystem / total rows", "%s:%d" % (rel, sl.lineno), ok, "%d column lists" % len(chans))
    # single-subsystem clean-up only for fewer than two sources
    ok = True
    srcname = src_loop(sl)[0]
    drops = [x for x in ast.walk(ploop) if isinstance(x, ast.If) and any(isinstance(c, ast.Call) and isinstance(c.func, ast.Attribute) and c.func.attr == "drop" for c in ast.walk(x))]
    for d_ in drops:
        t = ast.unparse(d_.test).replace(" ", "")
        if t not in ("len(%s)<2" % srcname, "len(%s)==1" % srcname, "len(%s)<=1" % srcname):
            ok = False
            rep.violation("R2", "system.System.solve", "%s:%d" % (rel, d_.lineno), "Subsystem row / Domain column are dropped when `%s`, expected only for a single-source system" % ast.unparse(d_.test), "drop condition " + t)
    if not drops:
        raise AnalysisError("solve: single-subsystem clean-up not found")
    rep.instance("R2", "system.System.solve drops the Subsystem row only for one source", "%s:%d" % (rel, drops[0].lineno), ok)
