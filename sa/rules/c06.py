"""C06 - load phases: each phase is solved with each component's phase behaviour (DESIGN.md section 4, C06)."""
import ast
from ..core import KINDS, AnalysisError
from ..laws import check_against_spec, summarize_law, METH, LOADS, rows, select, subst_value, values_equal, show_alpha, is_sleep_row
from ..guards import facts_from
from ..summ import show_value
from .. import sysrules

EXPLANATION = (
    "(R1) the input-current law of PLoad/ILoad/RLoad uses the configured value without a phase table, the sleep value "
    "(pwrs / iis / unchanged resistance) when the phase is absent from its table and the table value otherwise; (R2) for "
    "Source/Converter/LinReg/PSwitch/PMux the phase-inactive rows are exactly 'has a table and the phase is not in it', and "
    "without a table every law coincides with its 'listed phase' row; RLoss/VLoss/Rectifier do not depend on the phase; "
    "(R3) the phase handed to every law derives from the phase-loop variable of solve() through _solve -> _sys_init / "
    "forward / backward pass, and the per-node table is the registry entry of that node; (R4) no variable written in one "
    "iteration of the phase loop reaches the next iteration except append-only result accumulators (reaching definitions "
    "over the back edge, inner loops assumed to run once), and the phase list is [p] or all phases in declared order; "
    "(R5) an unknown phase raises ValueError before any solve, and phase names are matched by equality or registry "
    "membership, never by containment in a name. Not decided: the numeric values per phase (C01/C03).")

PHASED = ["Source", "Converter", "LinReg", "PSwitch", "PMux"]
UNPHASED = ["RLoss", "VLoss", "Rectifier"]


def run(model, rep, tier):
    rep.explanation = EXPLANATION
    A = rep.attempt
    A(lambda: rep.floor("R1", check_against_spec(model, rep, "R1", LOADS, "I", label=" load phase table"), 6))
    A(lambda: rep.floor("R2", check_against_spec(model, rep, "R2", PHASED, "IVP", want_rows=lambda a, s, k, z: is_sleep_row(a), label=" sleep rows"), 30))
    A(r2_nopc, model, rep)
    A(sysrules.c06_plumbing, model, rep)
    A(lambda: sysrules.object_state_rule(model, rep, sysrules.roles(model), "R4"))
    A(lambda: sysrules.row_assembly(model, rep, sysrules.roles(model), "R3", ["Phase", "Power (W)", "Warnings", "24h energy (Wh)"]))
    A(sysrules.phase_param_rule, model, rep)
    A(sysrules.set_sys_phases_rule, model, rep, "R5")
    A(sysrules.name_containment_rule, model, rep, "R5", {"phases"}, "phase")


def r2_nopc(model, rep):
    """without a phase configuration a component behaves as in its listed phase; loss elements ignore phases"""
    rel = model.rel("components")
    PC, IN = ("B", "PC"), ("B", "IN")
    n = 0
    for kind in PHASED + UNPHASED:
        for which in "IVP":
            owner, fn, leaves, ctx = summarize_law(model, kind, which, False)
            construct = "components.%s.%s" % (kind, METH[which])
            where = "%s:%d" % (rel, fn.lineno)
            ok = True
            atoms = set()
            for lf in leaves:
                for g in lf.guards:
                    from ..guards import atoms_of
                    atoms_of(g, atoms)
            if kind in UNPHASED:
                if PC in atoms or IN in atoms:
                    ok = False
                    rep.violation("R2", construct, where, "a series loss / rectifier law depends on the phase configuration", "phase dependent")
                rep.instance("R2", construct + " phase independent", where, ok)
                n += 1
                continue
            if PC not in atoms or IN not in atoms:
                raise AnalysisError("%s has no phase branch" % construct)
            for alpha, lf, mp, rctx in rows(leaves, ctx):
                if alpha[PC]:
                    continue
                beta = dict(alpha)
                beta[PC], beta[IN] = True, True
                lf2 = select(leaves, beta)
                if lf.kind != lf2.kind:
                    same = False
                elif lf.kind == "raise":
                    same = lf.exc == lf2.exc
                else:
                    same, _ = values_equal(subst_value(lf.value, mp, rctx), subst_value(lf2.value, mp, rctx))
                if not same:
                    ok = False
                    rep.violation("R2", construct, where, "without a phase table the law gives %s but in a listed phase %s on row {%s}" % (
                        lf.describe().split("->")[-1].strip(), lf2.describe().split("->")[-1].strip(), show_alpha(alpha)), "no-table row differs from listed-phase row")
                    break
            rep.instance("R2", construct + " no table == listed phase", where, ok)
            n += 1
    rep.floor("R2-nopc", n, 24)
