"""E5 - self-test of the rules (thorough tier): must-fire witnesses, must-stay-silent equivalents, fix reverts,
seeded regressions, and a mutation census.  All variants are in-memory source overlays of /repo's current
working tree; nothing is written to disk and nothing is executed."""
import ast
import glob
import json
import os
import sys
import multiprocessing as mp
from .core import disk_provider, overlay_provider, FILES, VERIF, AnalysisError
from .patching import apply as apply_diff, PatchError
from . import catalogue


def _variant_overlay(base, v):
    if v["type"] == "replace":
        rel = FILES[v["file"]]
        text = base(rel)
        n = text.count(v["old"])
        if n != 1:
            raise PatchError("witness %s: anchor text matches %d times" % (v["id"], n))
        return {rel: text.replace(v["old"], v["new"])}
    if v["type"] == "transform":
        out = {}
        for mod, rel in FILES.items():
            out[rel] = TRANSFORMS[v["name"]](base(rel))
        return out
    if v["type"] == "diff":
        with open(os.path.join(VERIF, v["path"])) as f:
            return apply_diff(base, f.read(), reverse=v.get("reverse", False))
    raise ValueError(v["type"])


def _t_unparse(text):
    """formatting-only rewrite: comments dropped, quotes / line breaks / parentheses normalised"""
    return ast.unparse(ast.parse(text)) + "\n"


class _Rename(ast.NodeTransformer):
    """rename local variables (not parameters, not attributes) of every function: x -> x_"""

    def visit_FunctionDef(self, node):
        params = {a.arg for a in node.args.posonlyargs + node.args.args + node.args.kwonlyargs}
        if node.args.vararg:
            params.add(node.args.vararg.arg)
        if node.args.kwarg:
            params.add(node.args.kwarg.arg)
        stores = {n.id for n in ast.walk(node) if isinstance(n, ast.Name) and isinstance(n.ctx, ast.Store)}
        nested = {n.name for n in ast.walk(node) if isinstance(n, ast.FunctionDef) and n is not node}
        glob = {x for n in ast.walk(node) if isinstance(n, (ast.Global, ast.Nonlocal)) for x in n.names}
        # names of enclosing scopes that a nested function only reads must keep their spelling in both places:
        # rename consistently inside this function's whole subtree
        local = stores - params - nested - glob

        def rec(n, shadow):
            if isinstance(n, ast.FunctionDef) and n is not node:
                inner = {a.arg for a in n.args.posonlyargs + n.args.args + n.args.kwonlyargs}
                inner |= {x.id for x in ast.walk(n) if isinstance(x, ast.Name) and isinstance(x.ctx, ast.Store)} - local
                shadow = shadow | inner
            if isinstance(n, (ast.ListComp, ast.GeneratorExp, ast.SetComp, ast.DictComp)):
                pass
            if isinstance(n, ast.Name) and n.id in local and n.id not in shadow:
                n.id = n.id + "_"
            for ch in ast.iter_child_nodes(n):
                rec(ch, shadow)
        rec(node, set())
        return node


def _t_rename(text):
    t = ast.parse(text)
    for n in t.body:
        if isinstance(n, ast.FunctionDef):
            _Rename().visit(n)
        elif isinstance(n, ast.ClassDef):
            for m in n.body:
                if isinstance(m, ast.FunctionDef):
                    _Rename().visit(m)
    return ast.unparse(t) + "\n"


class _Commute(ast.NodeTransformer):
    """a + b -> b + a and a * b -> b * a for numeric-looking operands (never for str / list operands), a == b -> b == a"""

    def visit_BinOp(self, node):
        self.generic_visit(node)
        def listy(n):
            return isinstance(n, (ast.List, ast.ListComp, ast.JoinedStr)) or (isinstance(n, ast.Constant) and isinstance(n.value, str)) \
                or (isinstance(n, ast.BinOp) and (listy(n.left) or listy(n.right))) or (isinstance(n, ast.Call) and isinstance(n.func, ast.Attribute) and n.func.attr in ("format", "join", "tolist"))
        if isinstance(node.op, (ast.Add, ast.Mult)) and not listy(node.left) and not listy(node.right):
            node.left, node.right = node.right, node.left
        return node

    def visit_Compare(self, node):
        self.generic_visit(node)
        if len(node.ops) == 1 and isinstance(node.ops[0], (ast.Eq, ast.NotEq)):
            node.left, node.comparators = node.comparators[0], [node.left]
        return node


def _t_commute(text):
    t = ast.parse(text)
    _Commute().visit(t)
    ast.fix_missing_locations(t)
    return ast.unparse(t) + "\n"


class _Append(ast.NodeTransformer):
    """x += [e]  ->  x.append(e)"""

    def visit_AugAssign(self, node):
        if isinstance(node.op, ast.Add) and isinstance(node.target, ast.Name) and isinstance(node.value, ast.List) and len(node.value.elts) == 1:
            return ast.copy_location(ast.Expr(value=ast.Call(func=ast.Attribute(value=ast.Name(id=node.target.id, ctx=ast.Load()), attr="append", ctx=ast.Load()),
                                                               args=[node.value.elts[0]], keywords=[])), node)
        return node


def _t_append(text):
    t = ast.parse(text)
    _Append().visit(t)
    ast.fix_missing_locations(t)
    return ast.unparse(t) + "\n"


def _t_alias(text):
    """every method that uses a registry `self._g.attrs["k"]` at least twice and never re-binds it gets a local alias
    `k_reg = self._g.attrs["k"]` as its first statement and uses the alias from there on"""
    import copy
    t = ast.parse(text)
    for fn in ast.walk(t):
        if not isinstance(fn, ast.FunctionDef):
            continue
        uses, rebound = {}, set()
        for x in ast.walk(fn):
            if isinstance(x, ast.Subscript) and isinstance(x.slice, ast.Constant) and isinstance(x.slice.value, str) and isinstance(x.value, ast.Attribute) \
                    and x.value.attr == "attrs" and isinstance(x.value.value, ast.Attribute) and x.value.value.attr == "_g" \
                    and isinstance(x.value.value.value, ast.Name) and x.value.value.value.id == "self":
                if isinstance(x.ctx, ast.Store):
                    rebound.add(x.slice.value)
                else:
                    uses.setdefault(x.slice.value, []).append(x)
        todo = {k: v for k, v in uses.items() if len(v) >= 2 and k not in rebound and k.isidentifier()}
        if not todo or fn.name == "__init__":
            continue
        ids = {id(n): k for k, v in todo.items() for n in v}

        class Sub(ast.NodeTransformer):
            def visit_Subscript(self, n):
                if id(n) in ids:
                    return ast.copy_location(ast.Name(id=ids[id(n)] + "_reg", ctx=ast.Load()), n)
                return self.generic_visit(n)
        first = {k: copy.deepcopy(v[0]) for k, v in todo.items()}
        Sub().visit(fn)
        pre = [ast.Assign(targets=[ast.Name(id=k + "_reg", ctx=ast.Store())], value=first[k]) for k in sorted(todo)]
        doc = 1 if fn.body and isinstance(fn.body[0], ast.Expr) and isinstance(fn.body[0].value, ast.Constant) and isinstance(fn.body[0].value.value, str) else 0
        fn.body[doc:doc] = pre
    ast.fix_missing_locations(t)
    return ast.unparse(t) + "\n"


TRANSFORMS = {"unparse": _t_unparse, "rename-locals": _t_rename, "commute": _t_commute, "append": _t_append, "alias": _t_alias}


def _run_one(job):
    prop, v = job[0], job[1]
    from .engine import verdict
    base = disk_provider()
    try:
        ov = _variant_overlay(base, v)
    except (PatchError, OSError) as e:
        return prop, v["id"], "stale", [str(e)]
    try:
        ast.parse(list(ov.values())[0])
    except SyntaxError as e:
        return prop, v["id"], "stale", ["variant does not parse: %s" % e]
    st, det = verdict(prop, overlay_provider(base, ov))
    return prop, v["id"], st, det


def variants_for(prop):
    fires, silent = [], []
    for v in catalogue.all_variants():
        if prop in v.get("fires", ()):
            fires.append(v)
        if prop in v.get("silent", ()):
            silent.append(v)
    return fires, silent


def run_jobs(jobs, procs=None):
    procs = procs or min(16, max(1, len(jobs)))
    if len(jobs) <= 2 or procs == 1:
        return [_run_one(j) for j in jobs]
    with mp.get_context("fork").Pool(procs) as pool:
        return pool.map(_run_one, jobs, chunksize=1)


def run(prop, rep):
    fires, silent = variants_for(prop)
    jobs = [(prop, v, "violation") for v in fires] + [(prop, v, "ok") for v in silent]
    res = run_jobs(jobs)
    broken = []
    summary = {"must_fire": len(fires), "fired": 0, "must_stay_silent": len(silent), "silent": 0, "stale": 0, "details": []}
    for (p, vid, st, det), (_, v, expect) in zip(res, jobs):
        if st == "stale":
            summary["stale"] += 1
            summary["details"].append({"variant": vid, "expected": expect, "got": "stale (anchor text no longer present)", "detail": det[:1]})
            continue
        if expect == "violation":
            if st == "violation":
                summary["fired"] += 1
            else:
                broken.append("witness %s should fire %s but the rules answered %s" % (vid, prop, st))
            summary["details"].append({"variant": vid, "expected": "fires", "got": st, "report": det[:1]})
        else:
            if st == "ok":
                summary["silent"] += 1
            else:
                broken.append("equivalent %s should leave %s silent but the rules answered %s: %s" % (vid, prop, st, det[:1]))
            summary["details"].append({"variant": vid, "expected": "silent", "got": st, "report": det[:1]})
    from . import census
    summary["census"] = census.run(prop)
    rep.extra["selftest"] = summary
    rep.notes.append("self-test: %d/%d witnesses fired, %d/%d equivalents silent, %d stale; census %s" % (
        summary["fired"], len(fires), summary["silent"], len(silent), summary["stale"],
        {k: summary["census"].get(k) for k in ("mutants", "flagged", "unreadable", "survived")}))
    if broken:
        raise AnalysisError("self-test of the checker failed: " + "; ".join(broken[:5]))


def matrix(props, procs=16):
    """developer view: every variant x every listed property"""
    jobs = []
    for prop in props:
        f, s = variants_for(prop)
        jobs += [(prop, v, "violation") for v in f] + [(prop, v, "ok") for v in s]
    return jobs, run_jobs(jobs, procs)
