#!/venv/bin/python
"""developer tool: confirm sub-agent seeds (tests still pass, demo fails with / passes without the change) in a scratch
worktree of /repo, run the static checks on each (in memory), and file confirmed ones under /verif/seeded/<id>/.
usage: ingest_seeds.py C05 C08 ...   (reads /tmp/seed/<prop>/seedK.patch, demoK.py, metaK.json)"""
import json, os, shutil, subprocess, sys, time, glob
from concurrent.futures import ThreadPoolExecutor

V = os.path.dirname(os.path.dirname(os.path.abspath(__file__)))
sys.path.insert(0, V)
sys.dont_write_bytecode = True


def sh(cmd, cwd=None, env=None, timeout=900):
    e = dict(os.environ)
    if env:
        e.update(env)
    p = subprocess.run(cmd, shell=True, cwd=cwd, env=e, capture_output=True, text=True, timeout=timeout)
    return p.returncode, (p.stdout + p.stderr)


ROOT = os.environ.get("SEED_ROOT", "/tmp/seed")
TAG = os.environ.get("SEED_TAG", "")


def sid(prop, k):
    return "%s-%s%d" % (prop, (TAG + "-") if TAG else "", k)


def confirm(prop, k, slot):
    src = "%s/%s" % (ROOT, prop)
    patch = os.path.join(src, "seed%d.patch" % k)
    demo = os.path.join(src, "demo%d.py" % k)
    if not (os.path.exists(patch) and os.path.exists(demo)):
        return None
    wt = "/tmp/verify/wt%d" % slot
    if not os.path.exists(wt):
        os.makedirs("/tmp/verify", exist_ok=True)
        rc, out = sh("git -C /repo worktree add -q --detach %s HEAD" % wt)
        if rc:
            return {"id": sid(prop, k), "confirmed": False, "why": "worktree: " + out}
    sh("git checkout -q --detach main && git checkout -- . && git clean -fdq", cwd=wt)
    env = {"PYTHONPATH": wt + "/src"}
    shutil.copy(demo, os.path.join(wt, "demo.py"))
    res = {"id": sid(prop, k), "property": prop, "k": k}
    rc0, out0 = sh("/venv/bin/python demo.py", cwd=wt, env=env, timeout=600)
    res["demo_clean"] = {"exit": rc0, "tail": out0[-300:]}
    rc, out = sh("git apply %s" % patch, cwd=wt)
    if rc:
        res.update(confirmed=False, why="patch does not apply to the current HEAD: " + out[-300:])
        return res
    rc1, out1 = sh("/venv/bin/python demo.py", cwd=wt, env=env, timeout=600)
    res["demo_patched"] = {"exit": rc1, "tail": out1[-600:]}
    rct, outt = sh("/venv/bin/python -m pytest -q -p no:cacheprovider -x -n 4 2>&1 | tail -3", cwd=wt, env=env, timeout=1200)
    res["tests_patched"] = outt.strip()[-200:]
    diff = subprocess.run("git diff", shell=True, cwd=wt, capture_output=True).stdout   # bytes: CRLF must survive
    sh("git checkout -- . && rm -f demo.py", cwd=wt)
    res["confirmed"] = (rc0 == 0 and rc1 != 0 and "91 passed" in outt)
    if not res["confirmed"]:
        res["why"] = "demo clean exit %d, demo patched exit %d, tests: %s" % (rc0, rc1, outt.strip()[-120:])
    res["_diff"] = diff
    return res


def static_verdicts(diff, props):
    from sa.core import disk_provider, overlay_provider
    from sa.patching import apply as apply_diff, PatchError
    from sa.engine import verdict
    base = disk_provider()
    try:
        ov = apply_diff(base, diff)
    except PatchError as e:
        return {"_error": str(e)}
    out = {}
    for p in props:
        st, det = verdict(p, overlay_provider(base, ov))
        out[p] = {"status": st, "report": det[:2]}
    return out


def _sv_job(a):
    return static_verdicts(*a)


def main():
    props = sys.argv[1:]
    built = sorted(os.path.basename(f)[:-3].upper() for f in glob.glob(os.path.join(V, "sa", "rules", "c*.py")))
    ks = tuple(int(x) for x in os.environ.get("SEED_KS", "1,2,3").split(","))
    jobs = [(p, k) for p in props for k in ks]
    results = []
    lanes = [[], [], [], []]
    for i, j in enumerate(jobs):
        lanes[i % 4].append(j)

    def lane(idx):
        return [confirm(p, k, idx) for p, k in lanes[idx]]
    with ThreadPoolExecutor(4) as ex:
        for r in ex.map(lane, range(4)):
            results += [x for x in r if x]
    import multiprocessing as mp
    usable = [r for r in results if r.get("confirmed")]
    with mp.get_context("fork").Pool(14) as pool:
        svs = dict(zip([r["id"] for r in usable], pool.map(_sv_job, [(r["_diff"].decode(), built) for r in usable], chunksize=1)))
    for r in sorted(results, key=lambda r: r["id"]):
        diff = r.pop("_diff", b"")
        if not r.get("confirmed"):
            print("%-8s NOT CONFIRMED: %s" % (r["id"], r.get("why")))
            continue
        sv = svs[r["id"]]
        det = sorted(p for p, v in sv.items() if isinstance(v, dict) and v.get("status") == "violation")
        err = sorted(p for p, v in sv.items() if isinstance(v, dict) and v.get("status") == "error")
        prop, k = r["property"], str(r["k"])
        src = "%s/%s" % (ROOT, prop)
        try:
            meta = json.load(open(os.path.join(src, "meta%s.json" % k)))
        except Exception:
            meta = {}
        d = os.path.join(V, "seeded", r["id"])
        os.makedirs(d, exist_ok=True)
        with open(os.path.join(d, "patch.diff"), "wb") as f:
            f.write(diff)
        shutil.copy(os.path.join(src, "demo%s.py" % k), os.path.join(d, "demo.py"))
        meta_out = {"property": prop, "summary": meta.get("summary", ""), "needs": meta.get("needs", ""),
                    "files": meta.get("files", []), "functions": meta.get("functions", []),
                    "origin": "independent sub-agent given only the property text and a scratch worktree",
                    "confirmed": {"how": "scratch worktree of /repo HEAD: demo.py exits 0 on the clean tree; with patch.diff applied the pinned suite still reports 91 passed and demo.py exits non-zero",
                                  "demo_clean_exit": r["demo_clean"]["exit"], "demo_patched_exit": r["demo_patched"]["exit"],
                                  "demo_patched_output": r["demo_patched"]["tail"], "tests_patched": r["tests_patched"]},
                    "detected_by": det, "analysis_error_in": err,
                    "reports": {p: sv[p]["report"] for p in det}}
        with open(os.path.join(d, "meta.json"), "w") as f:
            json.dump(meta_out, f, indent=1)
        print("%-8s confirmed; detected by %s%s" % (r["id"], det or "NOTHING", ("; unreadable for " + ",".join(err)) if err else ""))


if __name__ == "__main__":
    main()
