#!/venv/bin/python
"""developer tool: re-run every built property's rules on every filed seed and refresh `detected_by` in its meta.json"""
import json, os, sys, glob
V = os.path.dirname(os.path.dirname(os.path.abspath(__file__)))
sys.path.insert(0, V)
sys.dont_write_bytecode = True
import multiprocessing as mp


def one(d):
    from tools.ingest_seeds import static_verdicts
    built = sorted(os.path.basename(f)[:-3].upper() for f in glob.glob(os.path.join(V, "sa", "rules", "c*.py")))
    diff = open(os.path.join(d, "patch.diff")).read()
    sv = static_verdicts(diff, built)
    return d, sv


def main():
    dirs = sorted(os.path.dirname(p) for p in glob.glob(os.path.join(V, "seeded", "C*-*", "patch.diff")))
    with mp.get_context("fork").Pool(16) as pool:
        res = pool.map(one, dirs, chunksize=1)
    miss = 0
    for d, sv in res:
        mp_ = os.path.join(d, "meta.json")
        meta = json.load(open(mp_))
        det = sorted(p for p, v in sv.items() if isinstance(v, dict) and v.get("status") == "violation")
        err = sorted(p for p, v in sv.items() if isinstance(v, dict) and v.get("status") == "error")
        meta["detected_by"] = det
        meta["analysis_error_in"] = err
        meta["reports"] = {p: sv[p]["report"][:2] for p in det}
        json.dump(meta, open(mp_, "w"), indent=1)
        own = meta["property"] in det
        if not det:
            miss += 1
        print("%-8s %-3s own=%-5s detected by %s%s" % (os.path.basename(d), "" if det else "!!", own, det or "NOTHING", (" unreadable:" + ",".join(err)) if err else ""))
    print("%d seeds, %d undetected" % (len(res), miss))


if __name__ == "__main__":
    main()
