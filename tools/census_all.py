#!/venv/bin/python
import sys, os, json, time
sys.path.insert(0, os.path.dirname(os.path.dirname(os.path.abspath(__file__))))
sys.dont_write_bytecode = True
from sa import census
props = sys.argv[1:] or ["C%02d" % i for i in range(1, 21)]
for p in props:
    t0 = time.time()
    r = census.run(p)
    print("%s mutants=%d flagged=%d unreadable=%d survived=%d  (%.0fs)" % (p, r["mutants"], r["flagged"], r["unreadable"], r["survived"], time.time() - t0))
    for s in r.get("survivors", [])[:int(os.environ.get("SHOW", "0"))]:
        print("    survived:", s)
    for s in r.get("unreadable_examples", [])[:int(os.environ.get("SHOWU", "0"))]:
        print("    unreadable:", s)
