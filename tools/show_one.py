#!/venv/bin/python
"""developer tool: full report of one property's rules on one stored diff.  usage: show_one.py <dir under seeded> <prop> [canon]"""
import os, sys
V = os.path.dirname(os.path.dirname(os.path.abspath(__file__)))
sys.path.insert(0, V)
sys.dont_write_bytecode = True
from sa.core import disk_provider, overlay_provider, Model
from sa.patching import apply as apply_diff
from sa.engine import verdict
d = sys.argv[1]
d = d if os.path.isabs(d) or os.path.exists(d) else os.path.join(V, "seeded", d)
diff = open(os.path.join(d, "patch.diff") if os.path.isdir(d) else d).read()
base = disk_provider()
prov = overlay_provider(base, apply_diff(base, diff))
if len(sys.argv) > 3 and sys.argv[3] == "canon":
    import ast
    m = Model(prov)
    print("\n".join(m.canon_notes))
    fn = sys.argv[4] if len(sys.argv) > 4 else None
    for mod, t in m.tree.items():
        for n in ast.walk(t):
            if isinstance(n, (ast.FunctionDef,)) and n.name == fn:
                print(ast.unparse(n))
else:
    st, det = verdict(sys.argv[2], prov)
    print(st)
    for l in det:
        print(l)
