#!/venv/bin/python
"""writes seeded/MATRIX.md: which check catches which seeded change (from the meta.json files, refreshed by reeval_seeds.py)"""
import json, os, glob
V = os.path.dirname(os.path.dirname(os.path.abspath(__file__)))
rows = []
for mp in sorted(glob.glob(os.path.join(V, "seeded", "C*-*", "meta.json"))):
    m = json.load(open(mp))
    sid = os.path.basename(os.path.dirname(mp))
    rep = ""
    own = m["property"]
    r = m.get("reports", {})
    first = (r.get(own) or (list(r.values())[0] if r else [""]))
    rep = first[0][:150].replace("|", "/") if first else ""
    rows.append((sid, own, m.get("summary", "").replace("\n", " ").replace("|", "/")[:170], m.get("needs", "").replace("\n", " ").replace("|", "/")[:150], ", ".join(m.get("detected_by", [])) or "**none**", rep))
with open(os.path.join(V, "seeded", "MATRIX.md"), "w") as f:
    f.write("# Seeded regressions and the checks that catch them\n\n")
    f.write("Each change was written by an independent sub-agent that saw only the property text and a scratch worktree; every one keeps the pinned 91-test suite green and has a demonstration that fails with it and passes without it (confirmed in a scratch worktree, see each meta.json). `detected by` lists every property whose quick check reports a VIOLATION when the patch is applied (in memory) to /repo's current tree.\n\n")
    f.write("| seed | breaks | change | needs | detected by | first report of the owning check |\n|---|---|---|---|---|---|\n")
    for r in rows:
        f.write("| %s | %s | %s | %s | %s | %s |\n" % r)
    own_hit = sum(1 for r in rows if r[1] in r[4])
    f.write("\n%d seeds; %d caught by at least one check, %d by the check of the property they were written against.\n" % (len(rows), sum(1 for r in rows if "none" not in r[4]), own_hit))
print(len(rows))
