#!/venv/bin/python
"""developer tool: behaviour-preserving refactorings written by sub-agents (ROOT/<prop>/refK.patch + refK.json) are
(1) confirmed to keep the pinned suite green in a scratch worktree and (2) run through every property's rules in memory.
A VIOLATION on one of them is a false alarm of the machinery; an ANALYSIS-ERROR marks a shape the rules cannot read.
Confirmed ones are filed under /verif/seeded/equiv/<prop>-K/ (patch.diff, meta.json) and join the must-stay-silent variants.
usage: eval_refactors.py C01 C02 ...   (env REF_ROOT, default /tmp/seed3)"""
import glob, json, os, shutil, subprocess, sys
from concurrent.futures import ThreadPoolExecutor

V = os.path.dirname(os.path.dirname(os.path.abspath(__file__)))
sys.path.insert(0, V)
sys.dont_write_bytecode = True
ROOT = os.environ.get("REF_ROOT", "/tmp/seed3")
TAG = os.environ.get("REF_TAG", "")


def sh(cmd, cwd=None, env=None, timeout=1200):
    e = dict(os.environ)
    if env:
        e.update(env)
    p = subprocess.run(cmd, shell=True, cwd=cwd, env=e, capture_output=True, text=True, timeout=timeout)
    return p.returncode, p.stdout + p.stderr


def confirm(prop, k, slot):
    patch = "%s/%s/ref%d.patch" % (ROOT, prop, k)
    if not os.path.exists(patch):
        return None
    wt = "/tmp/verify/wt%d" % slot
    if not os.path.exists(wt):
        os.makedirs("/tmp/verify", exist_ok=True)
        sh("git -C /repo worktree add -q --detach %s HEAD" % wt)
    sh("git checkout -q --detach main && git checkout -- . && git clean -fdq", cwd=wt)
    res = {"id": "%s-%s%d" % (prop, (TAG + "-") if TAG else "", k), "property": prop, "k": k}
    rc, out = sh("git apply %s" % patch, cwd=wt)
    if rc:
        res.update(ok=False, why="patch does not apply: " + out[-200:])
        return res
    rct, outt = sh("/venv/bin/python -m pytest -q -p no:cacheprovider -x -n 4 2>&1 | tail -3", cwd=wt, env={"PYTHONPATH": wt + "/src"})
    res["tests"] = outt.strip()[-120:]
    res["_diff"] = subprocess.run("git diff", shell=True, cwd=wt, capture_output=True).stdout
    sh("git checkout -- .", cwd=wt)
    res["ok"] = "91 passed" in outt
    if not res["ok"]:
        res["why"] = "tests: " + res["tests"]
    return res


def _sv_job(a):
    from tools.ingest_seeds import static_verdicts
    return static_verdicts(*a)


def main():
    from tools.ingest_seeds import static_verdicts
    props = sys.argv[1:]
    built = sorted(os.path.basename(f)[:-3].upper() for f in glob.glob(os.path.join(V, "sa", "rules", "c*.py")))
    jobs = [(p, k) for p in props for k in (1, 2, 3, 4)]
    lanes = [[], [], [], []]
    for i, j in enumerate(jobs):
        lanes[i % 4].append(j)
    results = []
    with ThreadPoolExecutor(4) as ex:
        for r in ex.map(lambda idx: [confirm(p, k, idx) for p, k in lanes[idx]], range(4)):
            results += [x for x in r if x]
    import multiprocessing as mp
    usable = [r for r in results if r.get("ok")]
    with mp.get_context("fork").Pool(14) as pool:
        svs = dict(zip([r["id"] for r in usable], pool.map(_sv_job, [(r["_diff"].decode(), built) for r in usable], chunksize=1)))
    for r in sorted(results, key=lambda r: r["id"]):
        diff = r.pop("_diff", b"")
        if not r.get("ok"):
            print("%-8s NOT USABLE: %s" % (r["id"], r.get("why")))
            continue
        sv = svs[r["id"]]
        viol = sorted(p for p, v in sv.items() if isinstance(v, dict) and v.get("status") == "violation")
        err = sorted(p for p, v in sv.items() if isinstance(v, dict) and v.get("status") == "error")
        try:
            meta = json.load(open("%s/%s/ref%d.json" % (ROOT, r["property"], r["k"])))
        except Exception:
            meta = {}
        d = os.path.join(V, "seeded", "equiv", r["id"])
        os.makedirs(d, exist_ok=True)
        open(os.path.join(d, "patch.diff"), "wb").write(diff)
        json.dump({"property": r["property"], "summary": meta.get("summary", ""), "why_equivalent": meta.get("why_equivalent", ""),
                   "functions": meta.get("functions", []), "tests_patched": r["tests"],
                   "origin": "independent sub-agent asked for a behaviour-preserving refactoring, given only the property text and a scratch worktree",
                   "violation_in": viol, "analysis_error_in": err,
                   "reports": {p: sv[p]["report"][:2] for p in viol + err}}, open(os.path.join(d, "meta.json"), "w"), indent=1)
        print("%-8s tests ok; VIOLATION in %s; unreadable for %s" % (r["id"], viol or "-", err or "-"))
        for p in viol + err:
            for line in sv[p]["report"][:2]:
                print("           %s: %s" % (p, line[:260]))


if __name__ == "__main__":
    main()
