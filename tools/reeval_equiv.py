#!/venv/bin/python
"""developer tool: re-run every property's rules on every filed behaviour-preserving refactoring (seeded/equiv/*) and
refresh violation_in / analysis_error_in in its meta.json.  Any VIOLATION here is a false alarm of the machinery."""
import json, os, sys, glob
V = os.path.dirname(os.path.dirname(os.path.abspath(__file__)))
sys.path.insert(0, V)
sys.dont_write_bytecode = True
import multiprocessing as mp


def one(d):
    from tools.ingest_seeds import static_verdicts
    built = sorted(os.path.basename(f)[:-3].upper() for f in glob.glob(os.path.join(V, "sa", "rules", "c*.py")))
    return d, static_verdicts(open(os.path.join(d, "patch.diff")).read(), built)


def main():
    dirs = sorted(os.path.dirname(p) for p in glob.glob(os.path.join(V, "seeded", "equiv", "*", "patch.diff")))
    with mp.get_context("fork").Pool(16) as pool:
        res = pool.map(one, dirs, chunksize=1)
    nv = ne = 0
    for d, sv in res:
        mp_ = os.path.join(d, "meta.json")
        meta = json.load(open(mp_))
        viol = sorted(p for p, v in sv.items() if isinstance(v, dict) and v.get("status") == "violation")
        err = sorted(p for p, v in sv.items() if isinstance(v, dict) and v.get("status") == "error")
        meta["violation_in"], meta["analysis_error_in"] = viol, err
        meta["reports"] = {p: sv[p]["report"][:2] for p in viol + err}
        json.dump(meta, open(mp_, "w"), indent=1)
        nv += bool(viol); ne += bool(err)
        if viol or err:
            print("%-8s VIOLATION in %s; unreadable for %s" % (os.path.basename(d), viol or "-", err or "-"))
            if os.environ.get("SHOW"):
                for p in viol + err:
                    for line in sv[p]["report"][:2]:
                        print("           %s: %s" % (p, line[:300]))
    print("%d refactorings: %d with a false alarm, %d with an unreadable shape" % (len(res), nv, ne))


if __name__ == "__main__":
    main()
