#!/venv/bin/python
"""developer tool: after a `fix:` commit in /repo, re-derive the stored seeded / fix-revert diffs that no longer apply to
HEAD.  Each stale diff is applied to the commit it was taken against (argument, default 00dccd3), three-way merged with
HEAD (git merge-file) and stored again as a diff against HEAD.  Nothing is executed; conflicts are reported, not guessed.
usage: rebase_diffs.py [old-base-commit]"""
import difflib, glob, os, subprocess, sys, tempfile

V = os.path.dirname(os.path.dirname(os.path.abspath(__file__)))
sys.path.insert(0, V)
sys.dont_write_bytecode = True
from sa.patching import apply as apply_diff, parse, PatchError
from sa.core import disk_provider


def show(commit, path):
    p = subprocess.run(["git", "-C", "/repo", "show", "%s:%s" % (commit, path)], capture_output=True)
    return p.stdout.decode().replace("\r\n", "\n")


def merge3(base, ours, theirs):
    with tempfile.TemporaryDirectory() as d:
        fs = {}
        for k, t in (("base", base), ("ours", ours), ("theirs", theirs)):
            fs[k] = os.path.join(d, k)
            open(fs[k], "w").write(t)
        p = subprocess.run(["git", "merge-file", "-p", fs["ours"], fs["base"], fs["theirs"]], capture_output=True)
        return p.returncode, p.stdout.decode()


def fuzzy(diff_text, path, head_text, rev):
    """last resort: GNU patch with fuzz 3 on an LF copy of HEAD's file"""
    with tempfile.TemporaryDirectory() as d:
        full = os.path.join(d, path)
        os.makedirs(os.path.dirname(full))
        open(full, "w").write(head_text)
        pf = os.path.join(d, "p.diff")
        open(pf, "w").write(diff_text.replace("\r\n", "\n"))
        p = subprocess.run(["patch", "-p1", "--fuzz=3", "-s"] + (["-R"] if rev else []) + ["-i", pf], cwd=d, capture_output=True)
        if p.returncode != 0:
            return None
        return open(full).read()


def udiff(path, a, b):
    lines = difflib.unified_diff(a.split("\n"), b.split("\n"), "a/" + path, "b/" + path, lineterm="", n=3)
    return "diff --git a/%s b/%s\n" % (path, path) + "\n".join(lines) + "\n"


def main():
    old = sys.argv[1] if len(sys.argv) > 1 else "00dccd3"
    head = disk_provider()
    items = [(p, True) for p in sorted(glob.glob(os.path.join(V, "seeded", "fix-reverts", "F*.diff")))]
    items += [(p, False) for p in sorted(glob.glob(os.path.join(V, "seeded", "*", "patch.diff")))]
    items += [(p, False) for p in sorted(glob.glob(os.path.join(V, "seeded", "equiv", "*", "patch.diff")))]
    for p, rev in items:
        text = open(p).read()
        try:
            apply_diff(head, text, reverse=rev)
            continue
        except PatchError:
            pass
        try:
            ov = apply_diff(lambda path: show(old, path), text, reverse=rev)
        except PatchError as e:
            print("%-50s does not apply to %s either: %s" % (os.path.relpath(p, V), old, e))
            continue
        out = ""
        bad = False
        for path, theirs in ov.items():
            rc, merged = merge3(show(old, path), head(path), theirs)
            if rc != 0:
                merged = fuzzy(text, path, head(path), rev)
                if merged is None:
                    print("%-50s CONFLICT in %s" % (os.path.relpath(p, V), path))
                    bad = True
                    break
            try:
                import ast as _ast
                _ast.parse(merged)
            except SyntaxError as e:      # a fuzzy patch can put a line into the middle of an expression: that is no rebase
                print("%-50s CONFLICT in %s (merge result does not parse: %s)" % (os.path.relpath(p, V), path, e.msg))
                bad = True
                break
            out += udiff(path, merged, head(path)) if rev else udiff(path, head(path), merged)
        if bad:
            continue
        open(p, "w").write(out)
        print("%-50s rebased" % os.path.relpath(p, V))


if __name__ == "__main__":
    main()
