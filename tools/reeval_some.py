#!/venv/bin/python
"""developer tool: re-run every property's rules on the stored diffs whose directory matches a glob (seeded/<glob>); prints verdicts,
does not touch meta.json.  usage: reeval_some.py 'equiv/*-r6-*' [SHOW=1]"""
import glob, json, os, sys
V = os.path.dirname(os.path.dirname(os.path.abspath(__file__)))
sys.path.insert(0, V)
sys.dont_write_bytecode = True
import multiprocessing as mp


def one(d):
    from tools.ingest_seeds import static_verdicts
    built = sorted(os.path.basename(f)[:-3].upper() for f in glob.glob(os.path.join(V, "sa", "rules", "c*.py")))
    only = os.environ.get("PROPS")
    if only:
        built = only.split(",")
    return d, static_verdicts(open(os.path.join(d, "patch.diff")).read(), built)


def main():
    dirs = sorted(os.path.dirname(p) for pat in sys.argv[1:] for p in glob.glob(os.path.join(V, "seeded", pat, "patch.diff")))
    with mp.get_context("fork").Pool(16) as pool:
        res = pool.map(one, dirs, chunksize=1)
    nv = ne = 0
    for d, sv in res:
        if "_error" in sv:
            print("%-12s PATCH ERROR %s" % (os.path.basename(d), sv["_error"][:100]))
            continue
        viol = sorted(p for p, v in sv.items() if isinstance(v, dict) and v.get("status") == "violation")
        err = sorted(p for p, v in sv.items() if isinstance(v, dict) and v.get("status") == "error")
        nv += bool(viol); ne += bool(err)
        print("%-12s VIOLATION in %s; unreadable for %s" % (os.path.basename(d), viol or "-", err or "-"))
        if os.environ.get("SHOW"):
            for p in viol + err:
                for line in sv[p]["report"][:2]:
                    print("           %s: %s" % (p, line[:int(os.environ.get("W", "300"))]))
    print("%d diffs: %d with a violation, %d with an unreadable shape" % (len(res), nv, ne))


if __name__ == "__main__":
    main()
