#!/venv/bin/python
"""Regenerates /verif/MANIFEST.json from the table below (one entry per claimed property)."""
import json, os, sys

V = os.path.dirname(os.path.dirname(os.path.abspath(__file__)))
ALL = ["C%02d" % i for i in range(1, 21)]

TB = ("Trusted: CPython ast; the term normaliser sa/terms.py (exact Fraction arithmetic), guard algebra sa/guards.py and path walker "
      "sa/summ.py; the reference tables/texts under sa/ (spec_laws.py, spec_sys.py and the per-rule obligation tables); library contracts "
      "listed in DESIGN.md section 7. ")

CLAIMS = {
    "C01": dict(
        technique="guarded function summaries (syntax-directed, no execution) compared with reference laws by guard truth table + rational-function normal forms; loop-body summaries for the solver passes and row assembly",
        text="Rule-based static decision of the structural clauses: every _solv_outp_volt/_solv_inp_curr summary equals the documented law on every guard row for all inputs (algebraic identity, both polarities), interpolator arguments, wiring of forward/backward pass, child-current sum and row assembly of solve(). Decides the laws and their composition for all inputs; does not decide convergence to them.",
        note=TB + "Not decided: that the iteration converges to the fixed point of these laws (C03); floating-point error. Known finding K1 (negative Source with rs) is listed in known_findings.json.",
        ref="DESIGN.md section 4 C01"),
    "C02": dict(
        technique="algebraic identities between sibling function summaries (power/loss routine composed with the kind's own voltage and current laws), rational-function normal forms on every joint guard row",
        text="Rule-based static decision: Power-Loss == |Vout|*Iout for all inputs of every non-load kind, Loss>=0 under constructor-justified sign lemmas, efficiency element is EFF(Power, Power-Loss), temperature rise/peak identities, load power-or-loss exclusivity, and the operands solve() hands to the power routine. The per-component identities are decided exactly; the system-wide balance is derived from them, not checked separately.",
        note=TB + "Not decided: residual of the identities at a merely tolerance-converged iterate. For plain loads the rule is tr == rt*consumption (what test_case13 pins), deliberately not the literal 'rt x Loss' of the statement. Known finding K1 (negative Source) listed in known_findings.json.",
        ref="DESIGN.md section 4 C02"),
    "C03": dict(
        technique="structural rules on the solver loop (exit-test operands and tolerances, counter, carry order, complementary post-check compared as comparison atoms) + sibling guard rule on law summaries (polarity / magnitude established by the leaf's guards)",
        text="Static decision of the structural minority of the statement: shape and operands of the convergence test, boundedness and the complementary RuntimeError check at the call site, and the polarity/magnitude guard of every passive series law (all guard rows, all inputs). This is a necessary-condition check; it says nothing about the numerics.",
        note=TB + "NOT decided (most of the statement): that the returned iterate is within tolerance of a true fixed point, finiteness, that a benign steady state is found when one exists, iteration count - these quantify over the trajectory of a floating-point iteration. batt_life() drops the solver's iteration count (observed, no rule armed). Known finding K1 listed in known_findings.json.",
        ref="DESIGN.md section 4 C03"),
    "C04": dict(
        technique="guarded summaries vs dead/sleep table on the dead and sleep guard rows; structural rules on solver state propagation and initialisation",
        text="Static induction step: every law returns 0 A / 0 W / (0 V, OFF) on dead rows and exactly the sleep current/power on phase-inactive rows, OFF is only ever reported with literal 0 V, and the solver carries and initialises the off-state per node from its own parents. Together with the C01 wiring rules this gives isolation of the whole subtree.",
        note=TB + "Not decided: that the off state has finished propagating when the tolerance test stops the sweep (C03).",
        ref="DESIGN.md section 4 C04"),
    "C05": dict(
        technique="idiom matcher for the first-match scan in its spellings, including scans written as a tree of exits (exit conditions and exit values compared as a truth table); order-provenance and who-may-consume rules on the input-order registry; reference comparison of the mux laws, child-current sum, mux row of solve() and _find_domain (path summaries vs reference text); object-state rule on the phase loop",
        text="Static decision of all structural clauses: the selection is the ascending first-match scan over (not off and |v|!=0), the declared input order is stored, preserved and read back position by position and the unordered graph view is consumed nowhere else, current goes to the selected input only, one index is used for voltage / per-input resistance / lookup, the mux row reports the selected input as Parent / Rail in / Vin, _find_domain follows the first input with voltage to its root, and the no-live-input rows are dead rows.",
        note=TB + "Not decided: numeric values (C01/C03). The agreement between the solver's selection (off-state and voltage) and _find_domain's (voltage only) relies on C04-R2 (OFF implies 0 V).",
        ref="DESIGN.md section 4 C05"),
    "C07": dict(
        technique="loop-carried dependence (reaching definitions over the row loop's back edge); canonical pandas-selection records compared with an expected table; term identity for the energy formula with the sum loop read as a reduction idiom",
        text="Static decision of attribution (a function of the tree only: nothing is carried from the previously emitted row, the inherited domain is the one recorded for the row's own parent), of the subsystem and total records (which rows are selected, which column, which reducer, which efficiency operands), of the 24 h energy formula as an algebraic identity, and of the duration-weighted average row.",
        note=TB + "pandas evaluates boolean selections, .sum(), .values[0] as modelled (trusted contract). Row order is not decided. The identity 'per-phase energies add up to the energy of the average' is derived from the decided records (linear), not separately checked.",
        ref="DESIGN.md section 4 C07"),
    "C08": dict(
        technique="canonical pandas-selection records of rail_rep() (filter, column, reducer per cell; nested helpers inlined statement by statement) compared with the expected table; argument-forwarding, totality (all paths return) and emptiness-guard rules; reference comparison of the Rail in label in solve()",
        text="Static decision of every cell of the rail report (which rows, which column, sum or first), of the warnings union, of the skip of empty (rail, phase) cells, of totality of the function, of the forwarding of all analysis options to solve(), and of the labelling of rows with the rail that actually feeds them.",
        note=TB + "pandas semantics are a trusted contract. Voltage is decided as 'first Vin of the rows fed by the rail', which equals the owner's Vout by C01-R6.",
        ref="DESIGN.md section 4 C08"),
    "C09": dict(
        technique="guarded summary of the comparison loop body (truth table over comparison atoms, both key modes); dictionary of compared quantities as terms; docstring/table agreement for applicability and defaults; effect-order check of the per-domain flag on row paths",
        text="Static decision of the comparison semantics (strict, by magnitude, tp signed, per-key default), the compared quantities, per-kind applicability against the class documentation, the default table against the module documentation, the phase-silence condition, the subsystem/total roll-up, the operands handed over by solve(), and that the configured [min, max] pairs reach the comparison unchanged (validator pass-through, single writer of _limits).",
        note=TB + "Not decided: the numeric values compared (C01-C03). The docstrings are the oracle for applicability; a documentation-only edit would be reported as a disagreement between code and documentation, which is what it is.",
        ref="DESIGN.md section 4 C09"),
    "C06": dict(
        technique="guard-row comparison of law summaries over the phase atoms (has-table / phase-listed); call-argument provenance; loop-carried dependence (reaching definitions over the phase loop's back edge)",
        text="Static decision of the mapping phase -> behaviour for every kind, of the plumbing of the phase and per-node phase table from solve() to every law, of phase independence (no scalar, container or object state carried between phase iterations except append-only accumulators; a cache rebuilt only under a condition counts as carried), and of the phase-list / unknown-phase prologue (phase names matched by equality, never by containment in a name).",
        note=TB + "Inner loops are assumed to execute at least once in the loop-carried analysis (a carry that exists only on a zero-trip inner loop is missed, never invented). Not decided: numeric values per phase.",
        ref="DESIGN.md section 4 C06"),
    "C10": dict(
        technique="structural rules on the interpolator classes; guard truth table of the 2-D clamp ladder against a reference; clone agreement of the seven table-flattening blocks (idiom matcher); check-precedes-construction on constructor path summaries; lookup-argument rule on law summaries",
        text="Static decision of everything the repository adds around np.interp / LinearNDInterpolator: magnitudes of axes, values and query, edge clamping on all eight outside regions, per-instance construction, axis order and row-major flattening identical in all seven constructors, validation before construction with the key that is read, and (|io|, |vi|) at every lookup. The interpolation values themselves are a library contract.",
        note=TB + "Not decided: exactness on the grid, linearity along grid lines, range within a cell, absence of NaN inside the hull, constant-table == constant: properties of Delaunay interpolation on the given grid.",
        ref="DESIGN.md section 4 C10"),
    "C11": dict(
        technique="path summaries of the eleven constructors (sign x magnitude arguments); magnitude taint against the parameters the law summaries read; range obligations as reference conditions discharged by propositional implication from the accepting path's guards; helper-function summaries",
        text="Static decision that every parameter the laws treat as a non-negative magnitude is stored as abs(argument) on every accepting scalar path (the sign lemmas of the term algebra are thereby justified), that interpolator constants and arrays are magnitudes, that every documented range check is present and correctly oriented on every accepting path, that a parameter which may be a table is validated on every accepting path that looks at it (an empty table does not pass for 0), that the interpolator classes never use their raw arguments, and that the table / limits validators reject what they document.",
        note=TB + "A resistance list is stored raw; the rule relies on the law taking abs() of the element (checked by C05-R4 / C03-R3). Consequences for solved systems (no negative loss, efficiency <= 100 %) are derived with C02, not separately decided.",
        ref="DESIGN.md section 4 C11"),
    "C12": dict(
        technique="writer / reader table agreement: keyword <- saved key maps of every constructor call in from_file, reader defaults vs constructor defaults, 'system' block keys, verbatim restore of registries, record structure of save(), version-gate comparison",
        text="Static decision of schema agreement between save() and from_file(): every keyword of every kind is fed from the saved parameter of the same name with the constructor's default, registries are written from and restored to the registry of the same name unmodified, limits and mux input order are written from the right source, a newer file is refused before anything is built, and every constructor stores the parameter its interpolator was built from (so what is saved is what the component computes with).",
        note=TB + "Not decided: JSON fidelity of floats; equality of solved values after reload (follows from equal parameters and structure).",
        ref="DESIGN.md section 4 C12"),
    "C13": dict(
        technique="schema / signature agreement between the per-kind _cparams tables and the constructors (constants folded), isinstance-branch vs accepted-type agreement; reference comparison of the path summaries of the generic loader and of LinReg's loader with reference texts (parsed, never executed)",
        text="Static decision that for every kind the TOML schema and the constructor agree on keys, optionality, defaults and dict / list forms, that the generic loader raises KeyError / ValueError as documented before storing anything, builds cls(name, **params) from a parse of the file made on that call (no memoised or cached parse) and leaves the shared default limits alone, and that LinReg's own loader maps keys to keywords one to one.",
        note=TB + "Not decided: TOML parsing. Rectifier.vdrop is mandatory in the file although optional in the constructor (allowed: the file is stricter).",
        ref="DESIGN.md section 4 C13"),
    "C14": dict(
        technique="path summaries of the edit methods (helpers inlined, loops as one symbolic iteration, branch decisions ordered with effects); check-dominates-mutation obligations written as reference code and discharged by propositional implication over canonical atoms",
        text="Static decision that on every accepting path of add_source / add_comp / change_comp / del_comp each conjunct of the well-formedness invariant is re-established by a check taken before the first modification, for all inputs and hence by induction for all edit histories; the constructor establishes its part (first component is a Source, rail differs from its name); plus uniform child-type tables and single-parent re-linking.",
        note=TB + "The obligation table (sa/editrules.py) is hand-written from the invariant, one reason per line; it is not derived. The invariant is assumed at entry of each method (induction hypothesis).",
        ref="DESIGN.md section 4 C14"),
    "C15": dict(
        technique="effect-order analysis on path summaries: no raise, warning, may-raise registry deletion or may-raise registry read after the first graph or registry modification; key-presence typestate; purity of validation helpers",
        text="Static decision, on every path of the six edit / configuration methods, that a path which raises or warns has not modified the graph, a registry or a parameter before, that registry deletions and reads after a modification have an established key, and that the validation helpers are effect-free.",
        note=TB + "warnings.warn counts as a raise (it is one under -W error). Not decided: exceptions thrown by rustworkx for reasons the repository's own checks do not cover; subscript loads with an absent key are tracked for the four name registries only.",
        ref="DESIGN.md section 4 C15"),
    "C16": dict(
        technique="registry lock-step, key-is-a-component and link/registry pairing on path summaries; order-provenance; iteration-state analysis of the per-node loops (upward-exposed scalars, containers read at foreign slots); cache-refresh must-precede rule; column-routing tables of the configuration reports and no branching on the truth value of a configured number; closed-vocabulary reference comparison of del_comp (path summaries vs reference text sa/spec_edit.py)",
        text="Static decision of the bookkeeping that makes results history-independent: name registries move in lock-step and only ever gain keys that are component names, the input-order registry holds indices and is updated with every link, index-hole-safe vector sizes, nothing carried from one node to the next in solve(), phases(), params()/limits(), tree() and save() except through the node's own parent, caches rebuilt unconditionally before every analysis, each parameter / limit / per-phase value routed to the column that names it (a configured 0 included), and del_comp leaving registries, links and the input priority order of re-linked childs exactly as its reference text does.",
        note=TB + "Not decided: that every report 'succeeds' for every history in the presence of library exceptions.",
        ref="DESIGN.md section 4 C16"),
    "C17": dict(
        technique="transitive effect sets of the analyses over the call graph (object state, graph, node payloads); definite-alias store analysis on arguments and module constants with call-site re-classification; try/finally restore pairing",
        text="Static decision that no analysis writes anything on the System but the caches every analysis rebuilds, that no law method, report helper or diagram function stores into an argument, a definite alias of one or a shared module constant, and that every battery parameter written by batt_life is restored from its saved original in a finally clause enclosing all the writes.",
        note=TB + "Alias reasoning is definite (plain assignment chains, elements taken out of an argument by subscript or .get(), one level of shallow copy), not may: a write reaching a shared constant only through a container slot or a call is missed (may-alias would false-alarm on _sys_init). Global state of matplotlib / tqdm is not considered.",
        ref="DESIGN.md section 4 C17"),
    "C18": dict(
        technique="path summary of the depletion-loop body with events in program order: store-before-call ordering, provenance of the callback's arguments, loop-condition / log-guard agreement by propositional implication",
        text="Static decision of the wiring of the depletion loop only (a minority of the statement): which state is written before the solve, which phase is solved, which duration and current reach the callback, that the phase index advances once after use, that the log append is guarded by the loop condition on the new state and accumulates time, that the log starts with the probed state, and that a non-Source target is rejected first.",
        note=TB + "Not decided: the values of the currents (the solver's iteration count is dropped by batt_life; observed, no rule armed), strict monotonicity of time (needs duration > 0), termination.",
        ref="DESIGN.md section 4 C18"),
    "C19": dict(
        technique="reference comparison of path summaries (guards as formulas, loops as one symbolic iteration, ordered store / call effects) of _diag, its node helper and _prep_loss with reference texts that are parsed, never executed; definite-alias store analysis (shared with C17); term identity for the colour mix and for the decimals of every SI band",
        text="Static decision of the structure of the graph that is built: every component added exactly once (cluster iff grouping on and group non-empty), one edge per graph edge through the inverse name map (links never filed in a mapping under one endpoint), legend only for heat diagrams, override precedence default -> kind -> name, no mutation of configuration or defaults, the heat mix / scale / duration-weighted mean, own-row label and colour, and the SI band table (three significant digits).",
        note=TB + "Not decided: what Graphviz renders from the graph. The reference texts (sa/spec_diag.py) are part of the trusted base. Constructs the summary engine does not model (lambdas, dispatch tables, dict.fromkeys) end in ANALYSIS-ERROR, as does a band table that is not an if / elif chain.",
        ref="DESIGN.md section 4 C19"),
    "C20": dict(
        category="proof",
        technique="exact rational normal forms of straight-line functions; identities discharged by cross-multiplication",
        text="Both functions are straight-line closed forms; each clause of the statement (documented formula, proportionalities, affinity in temperature, symmetry, trace/plane agreement, defaults) is an identity between normal forms and all are discharged. This is the whole statement at formula level.",
        note="Trusted base: CPython ast, sa/terms.py and fractions.Fraction. Float literals are read as exact decimals; IEEE rounding of the evaluation is outside the claim.",
        ref="DESIGN.md section 4 C20"),
}


ROUND6 = {   # clauses added in the sixth round (DESIGN.md section 11.6)
    "C03": " Also decided: the exit test uses a zero absolute tolerance (numpy's default 1e-8 hides sub-10-nA quantities), and a kind whose input current is known before the first sweep (ILoad) seeds the solver with that current for the phase being solved.",
    "C09": " Phase silence is decided per component type: exactly converter, regulator, switch, mux and load are silent when their table does not list the phase; source, series loss and rectifier are always evaluated.",
    "C10": " The abscissa handed to np.interp rises by magnitude (validated on magnitudes, or sorted by the class together with the values).",
    "C12": " The document's fixed keys and the name-derived keys must be disjoint by construction (known finding K2: they are not).",
    "C13": " The type gate of the reference loader accepts any dict for a table parameter (inline tables are parsed into a dict subclass).",
    "C14": " Duplicate PMux inputs are decided on resolved components (a parent may be named by name or by rail).",
    "C18": " The name-resolving helpers do not resolve the empty string (the registry's 'no rail' value) to a component.",
    "C15": " A call of another edit / configuration method counts as a modification and, after one, as a possible raise; when a commit adds an optional parameter the rules also run on the tree with the parameter left in (every call is quantified over, not only the default).",
    "C16": " Every way through the re-linking loop of del_comp rewrites the kept child's input order.",
    "C20": " A function written as cases is decided case by case (a case guarded by an equality after substituting it); purity is decided on the syntax before and independently of the closed forms.",
}
CANON_NOTE = (" Before any rule runs the parsed tree is brought to the vocabulary of a frozen inventory of the clean tree (sa/canon.py, sa/inventory.json): "
              "effect-free logging and assertions dropped, new literal constants written out, new optional parameters fixed at their defaults, renames of private "
              "helpers / attributes / registry keys undone, helpers the inventory does not know inlined (also from base classes), new NamedTuples read as tuples, "
              "new context-manager classes as try/finally, loops over literal tables written out, new local aliases written out. On the unchanged tree "
              "this does nothing; it only rewrites, every verdict is a rule's. A shape it cannot bring back is reported as ANALYSIS-ERROR (exit 2), never as a verdict.")


def main():
    for k, v in ROUND6.items():
        if not CLAIMS[k]["text"].endswith(v):
            CLAIMS[k]["text"] += v
    checks = []
    for pid in ALL:
        if pid not in CLAIMS:
            continue
        c = CLAIMS[pid]
        checks.append({
            "property_id": pid,
            "quick_cmd": "/verif/check %s --tier quick" % pid,
            "thorough_cmd": "/verif/check %s --tier thorough" % pid,
            "evidence_file": "/verif/evidence/%s.json" % pid,
            "replay_cmd_template": "/verif/check %s --replay {path}" % pid,
            "engine": "sa",
            "level_claimed": {"category": c.get("category", "other"), "text": c["text"], "design_ref": c["ref"]},
            "level_note": c["note"] + CANON_NOTE,
            "technique": c["technique"],
        })
    na = [{"property_id": p, "reason": NA.get(p, "check under construction (DESIGN.md section 4); not claimed yet")} for p in ALL if p not in CLAIMS]
    m = {
        "version": 1,
        "setup_cmd": "/venv/bin/python -c \"import ast,sys; [ast.parse(open(f).read()) for f in __import__('glob').glob('/verif/sa/**/*.py', recursive=True)]\"",
        "hooks": {"guard": "SYSLOSS_VERIF", "enable": "none: the checks parse /repo's sources; nothing is compiled in and no hook commit exists",
                  "baseline_off_cmd": "cd /repo && /venv/bin/python -m pytest -ra -q -p no:cacheprovider --timeout=900 --continue-on-collection-errors",
                  "source_commits": [], "add_only": True},
        "engines": [{"name": "sa", "path": "/verif/sa", "serves_properties": sorted(CLAIMS),
                     "kind_free_text": "static analysis over Python ast: guarded summaries + term algebra (E2), syntax-directed flow/effect analyses (E3), idiom matchers (E4), in-memory mutation self-test (E5)"}],
        "checks": checks,
        "not_applicable": na,
        "notes": "All checks are static: they read /repo/src/sysloss/*.py with ast on every run and never import or execute the package. Exit 2 + ANALYSIS-ERROR means the checker could not read a construct it must judge.",
    }
    if not na:
        del m["not_applicable"]
    with open(os.path.join(V, "MANIFEST.json"), "w") as f:
        json.dump(m, f, indent=1)
    print("MANIFEST.json: %d checks, %d not_applicable" % (len(checks), len(na)))


NA = {}
if __name__ == "__main__":
    main()
