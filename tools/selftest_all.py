#!/venv/bin/python
"""developer tool: run every catalogue variant against the properties it names; print mismatches"""
import sys, os, time
sys.path.insert(0, os.path.dirname(os.path.dirname(os.path.abspath(__file__))))
sys.dont_write_bytecode = True
from sa import selftest
props = sys.argv[1:] or ["C%02d" % i for i in range(1, 21)]
props = [p for p in props if os.path.exists(os.path.join(os.path.dirname(os.path.dirname(os.path.abspath(__file__))), "sa", "rules", p.lower() + ".py"))]
t0 = time.time()
jobs, res = selftest.matrix(props)
bad = 0
for (prop, v, expect), (_, vid, st, det) in zip(jobs, res):
    ok = st == expect
    if not ok:
        bad += 1
        print("%-4s %-45s expected %-9s got %-9s %s" % (prop, vid, expect, st, (det[0][:260] if det else "")))
print("%d variant runs, %d unexpected, %.1fs" % (len(jobs), bad, time.time() - t0))
