#!/venv/bin/python
"""developer tool: (re)generate sa/inventory.json - the names, function bodies (as structural token sequences) and attribute usage
profiles of the clean tree the rules were written against.  Run after every `fix:` commit in /repo.  sa/canon.py uses it to bring
a changed tree back to this vocabulary (renames undone, new helpers inlined, new literal constants written out)."""
import ast, json, os, sys
V = os.path.dirname(os.path.dirname(os.path.abspath(__file__)))
sys.path.insert(0, V)
sys.dont_write_bytecode = True
from sa.core import FILES, disk_provider
from sa import canon

prov = disk_provider()
trees = {mod: ast.parse(prov(rel)) for mod, rel in FILES.items()}
for t in trees.values():
    canon.strip_diagnostics(t)
inv = canon.build_inventory(trees)
with open(os.path.join(V, "sa", "inventory.json"), "w") as f:
    json.dump(inv, f, separators=(",", ":"))
print("inventory: %d functions, %d classes" % (sum(len(v) for v in inv["functions"].values()), len(inv["attrs"])))
