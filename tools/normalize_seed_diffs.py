#!/venv/bin/python
"""developer tool: re-emit every stored seeded / fix-revert diff as a byte-exact `git diff` of a scratch worktree at
/repo HEAD (CRLF preserved), so that each applies with `git -C /repo apply [-R]`.  The stored text is first applied in
memory (line-ending agnostic), written to the worktree with the file's own line endings, and diffed by git."""
import glob, os, subprocess, sys

V = os.path.dirname(os.path.dirname(os.path.abspath(__file__)))
sys.path.insert(0, V)
sys.dont_write_bytecode = True
from sa.patching import apply as apply_diff, PatchError
from sa.core import disk_provider

WT = "/tmp/verify/norm"


def git(*a, cwd=WT):
    return subprocess.run(["git"] + list(a), cwd=cwd, capture_output=True)


def main():
    if not os.path.exists(WT):
        os.makedirs(os.path.dirname(WT), exist_ok=True)
        p = git("-C", "/repo", "worktree", "add", "-q", "--detach", WT, "HEAD", cwd="/")
        if p.returncode:
            sys.exit(p.stderr.decode())
    git("checkout", "-q", "--detach", "main"); git("checkout", "--", "."); git("clean", "-fdq")
    head = disk_provider()
    items = [(p, True) for p in sorted(glob.glob(os.path.join(V, "seeded", "fix-reverts", "F*.diff")))]
    items += [(p, False) for p in sorted(glob.glob(os.path.join(V, "seeded", "*", "patch.diff")))]
    bad = 0
    for p, rev in items:
        text = open(p, newline="").read()
        try:
            ov = apply_diff(head, text, reverse=rev)
        except PatchError as e:
            print("STALE %s: %s" % (os.path.relpath(p, V), e)); bad += 1
            continue
        for path, new in ov.items():
            raw = open(os.path.join(WT, path), "rb").read()
            crlf = b"\r\n" in raw
            data = new.replace("\r\n", "\n")
            if crlf:
                data = data.replace("\n", "\r\n")
            open(os.path.join(WT, path), "w", newline="").write(data)
        d = git("diff", "-R") if rev else git("diff")
        git("checkout", "--", ".")
        if not d.stdout:
            print("EMPTY %s" % os.path.relpath(p, V)); bad += 1
            continue
        open(p, "wb").write(d.stdout)
        chk = subprocess.run(["git", "-C", WT, "apply", "--check"] + (["-R"] if rev else []) + [p], capture_output=True)
        if chk.returncode:
            print("NOAPPLY %s: %s" % (os.path.relpath(p, V), chk.stderr.decode()[:200])); bad += 1
    git("-C", "/repo", "worktree", "remove", "--force", WT, cwd="/")
    print("%d diffs, %d problems" % (len(items), bad))


if __name__ == "__main__":
    main()
