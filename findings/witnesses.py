#!/venv/bin/python
"""Dynamic witnesses for the genuine defects found by the static rules (DESIGN.md section 5).

NOT part of any check: the checks are static.  This file only documents, against the real
package, that each finding is a real defect (prints DEFECT before the fix: commit, OK after).
usage: /venv/bin/python findings/witnesses.py [F1 F2 ...]
"""
import sys, os, json, tempfile, warnings, itertools

warnings.simplefilter("ignore")
from sysloss.components import *
from sysloss.system import System


def F1():
    """C03: passive series elements invert their input instead of raising 'Unstable system'"""
    bad = []
    s = System("t", Source("S", vo=5.0))
    s.add_comp("S", comp=PSwitch("sw", rs=10.0))
    s.add_comp("sw", comp=ILoad("l", ii=1.0))
    try:
        df = s.solve()
        bad.append("PSwitch: Vout=%s" % df[df.Component == "sw"]["Vout (V)"].values[0])
    except ValueError:
        pass
    s = System("t", Source("S", vo=5.0, rs=10.0))
    s.add_comp("S", comp=ILoad("l", ii=1.0))
    try:
        df = s.solve()
        bad.append("Source: Vout=%s" % df[df.Component == "S"]["Vout (V)"].values[0])
    except ValueError:
        pass
    s = System("t", Source("S", vo=5.0))
    s.add_comp(["S"], comp=PMux("mx", rs=10.0))
    s.add_comp("mx", comp=ILoad("l", ii=1.0))
    try:
        df = s.solve()
        bad.append("PMux: Vout=%s" % df[df.Component == "mx"]["Vout (V)"].values[0])
    except ValueError:
        pass
    s = System("t", Source("S", vo=5.0))
    s.add_comp("S", comp=Rectifier("r", rs=10.0))
    s.add_comp("r", comp=ILoad("l", ii=1.0))
    try:
        df = s.solve()
        bad.append("Rectifier: Vout=%s" % df[df.Component == "r"]["Vout (V)"].values[0])
    except ValueError:
        pass
    return bad


def F2():
    """C11: PMux / Rectifier keep a negative rs"""
    bad = []
    if PMux("m", rs=-1.0)._params["rs"] < 0:
        bad.append("PMux(rs=-1) stores rs=-1")
    if Rectifier("r", rs=-1.0)._params["rs"] < 0:
        bad.append("Rectifier(rs=-1) stores rs=-1")
    return bad


def F3():
    """C12: diode rectifier reloads as MOSFET"""
    s = System("t", Source("S", vo=12.0))
    s.add_comp("S", comp=Rectifier("r", vdrop=0.6))
    s.add_comp("r", comp=ILoad("l", ii=1.0))
    with tempfile.TemporaryDirectory() as d:
        f = os.path.join(d, "s.json")
        s.save(f)
        s2 = System.from_file(f)
    a = s.solve()["Loss (W)"].tolist()
    b = s2.solve()["Loss (W)"].tolist()
    return [] if a == b else ["loss before %s after reload %s" % (a, b)]


def F4():
    """C17: batt_life leaks vo/rs when a callback raises"""
    s = System("t", Source("B", vo=3.6, rs=0.1))
    s.add_comp("B", comp=ILoad("l", ii=0.1))
    n = [0]

    def pf():
        return (1.0, 3.5, 0.2)

    def df(t, i):
        n[0] += 1
        if n[0] == 3:
            raise KeyError("boom")
        return (1.0 - 0.1 * n[0], 3.5 - 0.25 * n[0], 0.2 + 0.1 * n[0])

    try:
        s.batt_life("B", cutoff=1.0, pfunc=pf, dfunc=df)
    except KeyError:
        pass
    p = s._g[0]._params
    return [] if (p["vo"], p["rs"]) == (3.6, 0.1) else ["vo,rs = %s,%s" % (p["vo"], p["rs"])]


def F5():
    """C15: del_comp(<rail name>) deletes nodes and then raises"""
    s = System("t", Source("S", vo=5.0))
    s.add_comp("S", comp=Converter("c", vo=3.3, eff=0.9), rail="RA")
    s.add_comp("c", comp=ILoad("l", ii=0.1))
    before = sorted(s._g.node_indices())
    try:
        s.del_comp("RA")
    except (ValueError, KeyError) as e:
        after = sorted(s._g.node_indices())
        return [] if after == before else ["raised %r but nodes %s -> %s" % (e, before, after)]
    return []  # accepted: not a C15 matter


def F6():
    """C14: change_comp accepts edits that break the tree invariants"""
    bad = []
    s = System("t", Source("S", vo=5.0))
    s.add_comp("S", comp=Converter("a", vo=3.3, eff=0.9), rail="RA")
    s.add_comp("S", comp=Converter("b", vo=1.8, eff=0.9), rail="RB")
    try:
        s.change_comp("b", comp=Converter("b", vo=1.8, eff=0.9), rail="RA")
        bad.append("duplicate rail RA accepted")
    except ValueError:
        pass
    s = System("t", Source("S", vo=5.0))
    s.add_comp("S", comp=Converter("a", vo=3.3, eff=0.9))
    s.add_comp("a", comp=ILoad("l", ii=0.1))
    try:
        s.change_comp("a", comp=PLoad("a", pwr=1.0))
        bad.append("load with a child accepted")
    except ValueError:
        pass
    s = System("t", Source("S", vo=5.0))
    s.add_comp(["S"], comp=PMux("m"))
    s.add_comp("m", comp=Converter("a", vo=3.3, eff=0.9))
    try:
        s.change_comp("a", comp=PMux("a"))
        bad.append("second PMux accepted")
    except ValueError:
        pass
    return bad


def F7():
    """C16/C05: stale parent names after rename / delete of a mux input"""
    bad = []
    s = System("t", Source("S1", vo=5.0))
    s.add_source(Source("S2", vo=4.0))
    s.add_comp("S1", comp=RLoss("a", rs=0.1))
    s.add_comp(["a", "S2"], comp=PMux("m"))
    s.add_comp("m", comp=ILoad("l", ii=0.1))
    s.change_comp("a", comp=RLoss("a2", rs=0.1))
    try:
        s.solve()
    except Exception as e:
        bad.append("rename of mux input: %r" % e)
    s = System("t", Source("S1", vo=5.0))
    s.add_source(Source("S2", vo=4.0))
    s.add_comp("S1", comp=RLoss("x", rs=0.1))
    s.add_comp("x", comp=RLoss("a", rs=0.1))
    s.add_comp(["a", "S2"], comp=PMux("m"))
    s.add_comp("m", comp=ILoad("l", ii=0.1))
    s.del_comp("a", del_childs=False)
    try:
        s.solve()
    except Exception as e:
        bad.append("del_childs=False of mux input: %r" % e)
    return bad


def _f8_build(order):
    s = System("t", Source("S1", vo=5.0))
    s.add_source(Source("S2", vo=4.0))
    s.add_comp("S1", comp=RLoss("a", rs=0.1))
    for step in order:
        if step == "la":
            s.add_comp("a", comp=ILoad("la", ii=0.1))
        elif step == "b":
            s.add_comp("S2", comp=RLoss("b", rs=0.1))
        elif step == "m":
            s.add_comp(["b", "a"], comp=PMux("m"))
        elif step == "lm":
            s.add_comp("m", comp=ILoad("lm", ii=0.2))
    return s


def F8():
    """C07/C16: domain attribution depends on construction order"""
    res = {}
    for order in itertools.permutations(["la", "b", "m", "lm"]):
        if order.index("m") < order.index("b") or order.index("lm") < order.index("m"):
            continue
        df = _f8_build(order).solve()
        res[order] = df[df.Component == "la"]["Domain"].values[0]
    wrong = {k: v for k, v in res.items() if v != "S1"}
    return ["la attributed to %s with order %s" % (v, k) for k, v in wrong.items()]


def F9():
    """C05/C08: mux row names the grandparent as Parent"""
    s = System("t", Source("S1", vo=5.0))
    s.add_source(Source("S2", vo=4.0))
    s.add_comp("S1", comp=RLoss("a", rs=0.1))
    s.add_comp(["a", "S2"], comp=PMux("m"))
    s.add_comp("m", comp=ILoad("l", ii=0.1))
    df = s.solve()
    par = df[df.Component == "m"]["Parent"].values[0]
    return [] if par == "a" else ["mux fed from 'a' reports Parent=%r" % par]


def F10():
    """C08: rail_rep drops the warning shared by all components on a rail / returns None"""
    bad = []
    s = System("t", Source("S", vo=5.0), rail="R5")
    s.add_comp("R5", comp=ILoad("l", ii=1.0, limits={"pi": [0.0, 0.5]}))
    r = s.rail_rep()
    if r is None or r["Warnings"].tolist() != ["pi"]:
        bad.append("single over-limit load: Warnings=%r" % (None if r is None else r["Warnings"].tolist()))
    s = System("t", Source("S", vo=5.0))
    s.add_comp("S", comp=Converter("c", vo=3.3, eff=0.9), rail="RA")
    r = s.rail_rep()
    if r is None:
        bad.append("rails defined but feeding nothing: rail_rep() returned None")
    return bad


def F11():
    """C02: an unpowered component reports a peak temperature of 0 instead of ambient"""
    s = System("t", Source("S", vo=0.0))
    s.add_comp("S", comp=Converter("r", vo=3.3, eff=0.9, rt=10.0))
    s.add_comp("r", comp=ILoad("l", ii=1.0, rt=5.0))
    s.add_source(Source("S2", vo=5.0))
    s.add_comp("S2", comp=ILoad("l2", ii=1.0, rt=5.0))
    df = s.solve(ta=25.0)
    tp = df[df.Component == "r"]["Peak temp. (°C)"].values[0]
    return [] if tp == 25.0 else ["dead Converter at ta=25 reports peak temperature %s" % tp]


def F12():
    """C15: add_comp / change_comp warn about an ignored load rail after the edit has begun (raises under -W error)"""
    import warnings
    bad = []
    s = System("t", Source("V", vo=5.0))
    with warnings.catch_warnings():
        warnings.simplefilter("error")
        try:
            s.add_comp("V", comp=PLoad("L", pwr=1.0), rail="R")
        except UserWarning:
            pass
    if list(s._g.attrs["nodes"]) != ["V"]:
        bad.append("rejected add_comp left nodes=%r rails=%r" % (list(s._g.attrs["nodes"]), s._g.attrs["rails"]))
    s = System("t", Source("V", vo=5.0))
    s.add_comp("V", comp=PLoad("L", pwr=1.0))
    with warnings.catch_warnings():
        warnings.simplefilter("error")
        try:
            s.change_comp("L", comp=PLoad("L2", pwr=2.0), rail="R")
        except UserWarning:
            pass
    if list(s._g.attrs["nodes"]) != ["V", "L"]:
        bad.append("rejected change_comp left nodes=%r rails=%r" % (list(s._g.attrs["nodes"]), s._g.attrs["rails"]))
    return bad


def F13():
    """C14: the constructor accepts a rail named like its source"""
    try:
        s = System("t", Source("X", vo=5.0), rail="X")
    except ValueError:
        return []
    return ["System('t', Source('X'), rail='X') accepted: rails=%r" % s._g.attrs["rails"]]


def F14():
    """C16/C12: phases() takes the Domain from the last source in node order"""
    import os, tempfile
    s = System("t", Source("S1", vo=5.0))
    s.add_source(Source("S2", vo=4.0))
    s.add_comp("S1", comp=RLoss("a", rs=0.1))
    s.add_comp("S2", comp=RLoss("b", rs=0.1))
    s.add_comp(["a", "b"], comp=PMux("m"))
    s.add_comp("m", comp=ILoad("lm", ii=0.1))
    s.set_sys_phases({"p1": 1, "p2": 2})
    f = tempfile.mktemp(suffix=".json")
    s.save(f)
    s2 = System.from_file(f)
    os.remove(f)
    d1 = dict(zip(s.phases()["Component"], s.phases()["Domain"]))
    d2 = dict(zip(s2.phases()["Component"], s2.phases()["Domain"]))
    return [] if d1 == d2 else ["phases() Domain of the mux subtree: built %r, reloaded %r" % (d1["m"], d2["m"])]


def F15():
    """C16: set_comp_phases(<rail>) files the configuration under the rail name"""
    s = System("t", Source("V", vo=12.0))
    s.set_sys_phases({"sleep": 10, "run": 1})
    s.add_comp("V", comp=Converter("C", vo=5.0, eff=0.9), rail="R5")
    s.set_comp_phases("R5", ["run"])
    extra = sorted(set(s._g.attrs["phase_conf"]) - set(s._g.attrs["nodes"]))
    return ["phase registry holds keys that are no components: %r" % extra] if extra else []


def F16():
    """C09: a Rectifier with a phase list never sleeps, yet its warnings were suppressed in the phases the list does not name"""
    s = System("x", Source("12V", vo=12.0))
    s.add_comp("12V", comp=Rectifier("rect", vdrop=0.7, limits={"vo": [0, 5]}))
    s.add_comp("rect", comp=ILoad("ld", ii=0.1))
    s.set_sys_phases({"a": 1, "b": 1})
    s.set_comp_phases("rect", ["a"])
    df = s.solve()
    r = df[df.Component == "rect"]
    w = dict(zip(r.Phase, r.Warnings))
    return [] if w["b"] == "vo" else ["rectifier at 10.6 V with vo limit [0, 5]: Warnings %r in phase a, %r in phase b" % (w["a"], w["b"])]


def F17():
    """C14/C12: a PMux input listed by name and by rail is accepted twice; the saved file cannot be loaded"""
    s = System("t", Source("S0", vo=12.0), rail="sys")
    s.add_source(Source("S1", vo=5.0))
    try:
        s.add_comp(["S0", "sys", "S1"], comp=PMux("m", rs=[0.1, 0.2, 0.3]))
    except ValueError:
        return []
    return ["input list %r over graph links %r" % (s._g.attrs["pnames"][2], sorted(s._g.edge_list()))]


def F18():
    """C03: an ILoad seeds the solver with its nominal current in every phase -> false 'Unstable system'"""
    s = System("t", Source("S", vo=5.0))
    s.add_comp("S", comp=RLoss("R", rs=10.0))
    s.add_comp("R", comp=ILoad("L", ii=1.0))
    s.set_sys_phases({"a": 1, "b": 1})
    s.set_comp_phases("L", {"a": 0.001, "b": 0.002})
    try:
        s.solve()
    except ValueError as e:
        return ["solve() raised %s although the steady state drops 10-20 mV" % e]
    return []


def F19():
    """C03: numpy's default absolute tolerance hides currents below 1e-8 A: an intermediate iterate is returned"""
    s = System("t", Source("S", vo=1.0))
    s.add_comp("S", comp=RLoss("R", rs=1.0))
    s.add_comp("R", comp=PLoad("L", pwr=5e-9))
    df = s.solve()
    i = dict(zip(df["Component"], df["Iin (A)"]))
    return [] if abs(i["S"] - i["L"]) <= 1e-6 * i["L"] else ["load draws %g A but its source delivers %g A" % (i["L"], i["S"])]


def F20():
    """C10: a 1-D table whose io axis is written with negative signs is looked up on a falling axis"""
    a = VLoss("a", vdrop={"vi": [5.0], "io": [-0.9, -0.5, -0.1], "vdrop": [[0.9, 0.5, 0.1]]})
    got = [float(a._ipr._interp(x, 5.0)) for x in (0.1, 0.5, 0.9)]
    return [] if got == [0.1, 0.5, 0.9] else ["lookup at the grid points 0.1, 0.5, 0.9 returns %r" % got]


def F21():
    """C18: '' resolves to the first component without a rail, so batt_life('') / add_comp('') / set_comp_phases('') are accepted"""
    s = System("t", Source("Batt", vo=3.7, rs=0.1))
    s.add_comp("Batt", comp=PLoad("L", pwr=0.5))
    bad = []
    try:
        s.batt_life("", cutoff=3.0, pfunc=lambda: (1.0, 3.7, 0.1), dfunc=lambda t, i: (0.0, 3.7, 0.1))
        bad.append("batt_life('') accepted")
    except ValueError:
        pass
    try:
        s.add_comp("", comp=PLoad("L2", pwr=0.1))
        bad.append("add_comp('') accepted")
    except ValueError:
        pass
    return bad


def F22():
    """C13: a table parameter written as a TOML inline table is rejected as 'not of the correct type'"""
    import os, tempfile
    f = tempfile.mktemp(suffix=".toml")
    with open(f, "w") as fh:
        fh.write("[vloss]\nvdrop = {vi=[2.5], io=[0.1,0.5,0.9], vdrop=[[0.2,0.4,0.5]]}\n")
    try:
        VLoss.from_file("a", fname=f)
        return []
    except ValueError as e:
        return ["inline table: %s" % e]
    finally:
        os.remove(f)


def F23():
    """C04: below a dead source solve() raises 'Unstable system' instead of reporting zeros"""
    s = System("t", Source("S", vo=0.0))
    s.add_comp("S", comp=RLoss("R1", rs=1.0))
    s.add_comp("R1", comp=Converter("C", vo=5.0, eff=0.9))
    s.add_comp("C", comp=RLoss("R2", rs=100.0))
    s.add_comp("R2", comp=ILoad("L", ii=1.0))
    try:
        df = s.solve()
    except ValueError as e:
        return ["solve() raised: %s" % e]
    bad = [c for c, v in zip(df["Component"], df["Vout (V)"]) if v not in ("", 0.0)]
    return ["components with an output voltage below a dead source: %r" % bad] if bad else []


ALL = {k: v for k, v in globals().items() if k[0] == "F" and k[1:].isdigit()}
if __name__ == "__main__":
    rc = 0
    for k in sys.argv[1:] or sorted(ALL, key=lambda x: int(x[1:])):
        try:
            bad = ALL[k]()
        except Exception as e:  # a crash of the witness is itself a symptom
            bad = ["witness crashed: %r" % e]
        print(k, "DEFECT" if bad else "OK", "|", ALL[k].__doc__.strip(), "|", "; ".join(bad))
        rc |= bool(bad)
    sys.exit(rc)
